"""Model-level machinery: E3 model structures, text rendering with component layouts,
reference semantics of every generated function, uniform wrappers around generated
NumPy / C / JAX modules, and the by-name module oracle shared by C01-C07, C12.
"""
from __future__ import annotations

import itertools
import math

import numpy

from . import drive, lang as L, enumerate as E

SCHEMES = ("explicit_euler", "generalized_rush_larsen", "hybrid_rush_larsen")


# ---------------------------------------------------------------------------
# specs
def spec(states, params, assigns, comp=None, order=None, name=None, extra=None):
    """states/params: [(name, value_ast)], assigns: [(name, ast)],
    comp: {atom name: component name} (default all in ""), order: list of assignment names in text order."""
    d = {"states": [[n, v] for n, v in states], "params": [[n, v] for n, v in params],
         "assigns": [[n, a] for n, a in assigns], "comp": comp or {}, "order": order}
    if extra:
        d.update(extra)
    return d


def norm(sp):
    sp = dict(sp)
    sp["states"] = [(n, L.from_json(v)) for n, v in sp["states"]]
    sp["params"] = [(n, L.from_json(v)) for n, v in sp["params"]]
    sp["assigns"] = [(n, L.from_json(a)) for n, a in sp["assigns"]]
    return sp


def spec_text(sp, full=False):
    """Render a spec as .ode text.  Declarations are grouped per component; expression blocks
    follow the requested order, one `expressions("C")` header per maximal run of the same component."""
    sp = norm(sp)
    comp = sp.get("comp") or {}
    lines = []
    for kind, lst in (("parameters", sp["params"]), ("states", sp["states"])):
        groups = {}
        for n, v in lst:
            groups.setdefault(comp.get(n, ""), []).append((n, v))
        for c, ents in groups.items():
            head = f'{kind}("{c}", ' if c else f"{kind}("
            lines.append(head + ", ".join(f"{n}={L.render(v, full)}" for n, v in ents) + ")")
    # the same declaration repeated in another component's block (each component then owns a copy of the atom)
    for kind, n, c in sp.get("redeclare") or []:
        v = dict(sp["params"] if kind == "parameters" else sp["states"])[n]
        lines.append(f'{kind}("{c}", {n}={L.render(v, full)})')
    assigns = dict(sp["assigns"])
    order = sp.get("order") or [n for n, _ in sp["assigns"]]
    cur = None
    for n in order:
        c = comp.get(n, "")
        if c != cur:
            if c or cur is not None:
                lines.append(f'expressions("{c}")')
            cur = c
        lines.append(f"{n} = {L.render(assigns[n], full)}")
    return "\n".join(lines) + "\n"


class Ref:
    """Reference semantics of a spec."""

    def __init__(self, sp):
        sp = norm(sp)
        self.sp = sp
        self.states = [n for n, _ in sp["states"]]
        self.params = [n for n, _ in sp["params"]]
        self.defs = dict(sp["assigns"])
        self.ders = {f"d{s}_dt": s for s in self.states}
        self.inter = [n for n, _ in sp["assigns"] if n not in self.ders]
        self.monitors = [n for n, _ in sp["assigns"]]
        ev = L.Evaluator({})
        self.state_defaults = {n: ev.ev(v)[0] for n, v in sp["states"]}
        self.param_defaults = {n: ev.ev(v)[0] for n, v in sp["params"]}
        self.missing = sp.get("missing", [])
        self.param_slots = len(self.params)  # a parameter declared in the blocks of two components is one parameter

    def used_names(self):
        u = set()
        for a in self.defs.values():
            u |= L.variables(a)
        return u

    def evaluator(self, pt):
        env = {"t": pt["t"], "time": pt["t"]}
        for n in self.states + self.params + list(self.missing):
            env[n] = pt[n]
        return L.Evaluator(L.exact_env(env), self.defs)

    def value(self, evl, name):
        v = evl.name(name)
        if L.illcond(v):
            raise L.Skip("ill-conditioned")
        return v

    def g(self, pt, state, evl=None):
        """d(rate expression of `state`)/d(state), every other name (incl. intermediates) held fixed"""
        evl = evl or self.evaluator(pt)
        env = {"t": pt["t"], "time": pt["t"]}
        for n in self.states + self.params + list(self.missing):
            env[n] = pt[n]
        for n in self.monitors:  # intermediates and the other state derivatives (a rate may read another derivative)
            if n == f"d{state}_dt":
                continue
            try:
                env[n] = evl.name(n)[0]
            except L.Skip:
                pass
        d = L.Dual(env, {}, {state: 1.0}, through=False)
        return d.ev(self.defs[f"d{state}_dt"])

    def expected(self, fname, pt, state, delta=1e-8, stiff=None, evl=None):
        """-> (value, tolerance) of scheme `fname` for `state` at pt (pt has dt)"""
        evl = evl or self.evaluator(pt)
        f = self.value(evl, f"d{state}_dt")
        x, dt = pt[state], pt["dt"]
        if fname == "explicit_euler" or (fname == "hybrid_rush_larsen" and state not in (stiff or ())):
            v = x + dt * f[0]
            return v, max(L.tol(f) * abs(dt) * 2, 1e-12 * max(abs(x), abs(dt * f[0]), abs(dt) * f[2]))
        fv, g = self.g(pt, state, evl)
        gv = g
        scale = max(abs(x), abs(dt * f[0]), abs(dt) * f[2], 1e-300)
        if abs(abs(gv) - delta) <= 1e-9 * max(delta, abs(gv)):
            raise L.Skip("guard-boundary")
        if abs(gv) > delta:
            z = gv * dt
            if z > 300:
                raise L.Skip("exp-overflow")
            em1 = math.exp(z) - 1.0  # the formula as stated (not expm1): cancellation is part of the allowed rounding
            v = x + f[0] / gv * em1
            # conditioning: (exp(z)-1) loses ~ U/|z| relative accuracy for small z
            rel = 1e-9 + 64 * L.U / max(abs(z), 1e-300) if abs(z) < 1 else 1e-9
            t = max(rel * max(abs(f[0] / gv * em1), scale), L.tol(f) * abs(em1 / gv) * 2)
            return v, t
        v = x + dt * f[0]
        return v, max(L.tol(f) * abs(dt) * 2, 1e-12 * scale)


# ---------------------------------------------------------------------------
# uniform wrappers around generated modules
class StageError(Exception):
    def __init__(self, stage, ex):
        super().__init__(f"{type(ex).__name__}: {str(ex)[:300]}")
        self.stage = stage
        self.orig = ex


def stage(name, fn, *a, **k):
    try:
        return fn(*a, **k)
    except StageError:
        raise
    except Exception as ex:
        raise StageError(name, ex)


class PyMod:
    backend = "numpy"

    def __init__(self, code):
        self.code = code
        self.ns = stage("exec", drive.exec_py, code)

    def index_dict(self, kind):
        return dict(self.ns.get(kind, {}))

    def index(self, kind, name):
        return self.ns[kind + "_index"](name)

    def init(self, kind, **kw):
        return [float(v) for v in self.ns[f"init_{kind}_values"](**kw)]

    def arr(self, xs):
        return numpy.array(xs, dtype=numpy.float64)

    def call(self, fname, t, s, p, dt=None, missing=None):
        sa, pa = self.arr(s), self.arr(p)
        s0, p0 = sa.copy(), pa.copy()
        extra = [] if missing is None else [self.arr(missing)]
        with numpy.errstate(all="ignore"):
            if dt is None:
                out = self.ns[fname](t, sa, pa, *extra)
            else:
                out = self.ns[fname](sa, t, dt, pa, *extra)
        mutated = not (numpy.array_equal(sa, s0, equal_nan=True) and numpy.array_equal(pa, p0, equal_nan=True))
        return [float(v) for v in numpy.asarray(out).ravel()], mutated, (numpy.asarray(out).shape)

    def has(self, fname):
        return fname in self.ns


class JaxMod(PyMod):
    backend = "jax"

    def arr(self, xs):
        import jax.numpy as jnp

        return jnp.array(xs, dtype=jnp.float64)

    def call(self, fname, t, s, p, dt=None, missing=None):
        sa, pa = self.arr(s), self.arr(p)
        extra = [] if missing is None else [self.arr(missing)]
        if dt is None:
            out = self.ns[fname](t, sa, pa, *extra)
        else:
            out = self.ns[fname](sa, t, dt, pa, *extra)
        out = numpy.asarray(out)
        return [float(v) for v in out.ravel()], False, out.shape


class CMod:
    backend = "c"

    def __init__(self, code):
        self.code = code
        self.m = stage("compile", drive.CModule, code)

    def index(self, kind, name):
        r = self.m.index(kind, name)
        if r < 0:
            raise KeyError(name)
        return r

    def init(self, kind, **kw):
        n = self.m.num_states if kind == "state" else self.m.num_params
        return self.m.init(kind, n)

    def nout(self, fname):
        return self.m.num_monitored if fname == "monitor_values" else self.m.num_states

    def call(self, fname, t, s, p, dt=None, missing=None):
        if dt is None:
            out, s1, p1 = self.m.rhs_like(fname, t, list(s), list(p), self.nout(fname))
        else:
            out, s1, p1 = self.m.scheme(fname, list(s), t, dt, list(p))
        mutated = not (_same(s1, s) and _same(p1, p))
        return out, mutated, (len(out),)

    def has(self, fname):
        return hasattr(self.m.lib, fname)


def _same(a, b):
    return all((x == y) or (x != x and y != y) for x, y in zip(a, b))


def generate(ode, backend, **opts):
    if backend == "c":
        opts.pop("backend", None)
        return stage("codegen", drive.c_code, ode, **opts)
    return stage("codegen", drive.py_code, ode, backend=backend, **opts)


def build(text_or_ode, backend, **opts):
    ode = stage("load", drive.load, text_or_ode) if isinstance(text_or_ode, str) else text_or_ode
    code = generate(ode, backend, **opts)
    if backend == "c":
        return CMod(code)
    if backend == "jax":
        return JaxMod(code)
    return PyMod(code)


# ---------------------------------------------------------------------------
# grids
def model_grid(ref, with_dt=False, dts=(0.125,)):
    names = ["t"] + ref.states + ref.params + list(ref.missing)
    used = ref.used_names() | set(ref.states)
    if "time" in used:
        used.add("t")
    free = [n for n in names if n in used]
    k = len(free)
    vals = E.V8 if k <= 2 else (E.V5 if k <= 3 else (E.V4 if k <= 4 else (-1.0, 0.5, 2.0) if k <= 6 else (-1.0, 2.0)))
    pts = []
    for tup in itertools.product(vals, repeat=k):
        d = {n: 0.25 for n in names}
        d.update(zip(free, tup))
        if with_dt:
            for dt in dts:
                dd = dict(d)
                dd["dt"] = dt
                pts.append(dd)
        else:
            pts.append(d)
    return pts


# ---------------------------------------------------------------------------
# the by-name module oracle
def check_module(ref, mod, res, ID, functions, opts, tag, fail, pts=None, dts=(0.125,), index_kinds=True):
    """Compare generated functions of `mod` with the reference `ref`, by name through the module's own
    index functions.  `fail(finding, what, detail)` records a failure."""
    backend = mod.backend
    delta = opts.get("delta", 1e-8)
    stiff = opts.get("stiff_states")
    try:
        sidx = {n: mod.index("state", n) for n in ref.states}
        pidx = {n: mod.index("parameter", n) for n in ref.params}
        midx = {n: mod.index("monitor", n) for n in ref.monitors} if "monitor_values" in functions else {}
    except Exception as ex:
        fail(f"{ID}|{backend}|index|lookup-error", f"index function failed: {type(ex).__name__}: {ex}", {})
        return
    res["transitions"] += 1
    for kind, idx in (("state", sidx), ("parameter", pidx), ("monitor", midx)):
        if idx and sorted(idx.values()) != list(range(len(idx))):
            fail(f"{ID}|{backend}|{kind}_index|not-a-bijection", f"{kind} index {idx} is not a bijection onto 0..n-1", {"index": idx})
            return
    ns, npar = len(ref.states), ref.param_slots
    pts = pts if pts is not None else model_grid(ref)
    bad = {}
    vals_seen = set()
    for pt in pts:
        s = [0.0] * ns
        for n, i in sidx.items():
            s[i] = pt[n]
        p = [0.0] * npar
        for n, i in pidx.items():
            p[i] = pt[n]
        evl = ref.evaluator(pt)
        for fname in functions:
            if fname in ("rhs", "monitor_values"):
                try:
                    out, mutated, shape = mod.call(fname, pt["t"], s, p)
                except Exception as ex:
                    bad.setdefault((fname, "raises"), (pt, repr(ex)[:300]))
                    continue
                res["transitions"] += 1
                names = ref.ders if fname == "rhs" else {n: n for n in ref.monitors}
                want_len = ns if fname == "rhs" else len(ref.monitors)
                if len(out) != want_len:
                    bad.setdefault((fname, "length"), (pt, f"len {len(out)} != {want_len}"))
                    continue
                if mutated:
                    bad.setdefault((fname, "mutates-input"), (pt, "input arrays changed"))
                for n in names:
                    slot = sidx[names[n]] if fname == "rhs" else midx[n]
                    try:
                        r = ref.value(evl, n)
                    except L.Skip as sk:
                        res["skipped"][sk.reason] = res["skipped"].get(sk.reason, 0) + 1
                        continue
                    res["evaluations"] += 1
                    vals_seen.add((n, round(r[0], 9)))
                    if not abs(out[slot] - r[0]) <= L.tol(r):
                        bad.setdefault((fname, "wrong-value"), (pt, f"{n}: got {out[slot]!r}, reference {r[0]!r} (slot {slot})"))
            else:
                for dt in dts:
                    q = dict(pt)
                    q["dt"] = dt
                    try:
                        out, mutated, shape = mod.call(fname, pt["t"], s, p, dt=dt)
                    except Exception as ex:
                        bad.setdefault((fname, "raises"), (q, repr(ex)[:300]))
                        continue
                    res["transitions"] += 1
                    if len(out) != ns:
                        bad.setdefault((fname, "length"), (q, f"len {len(out)} != {ns}"))
                        continue
                    if mutated:
                        bad.setdefault((fname, "mutates-input"), (q, "input arrays changed"))
                    for st in ref.states:
                        try:
                            v, tl = ref.expected(fname, q, st, delta=delta, stiff=stiff, evl=evl)
                        except L.Skip as sk:
                            res["skipped"][sk.reason] = res["skipped"].get(sk.reason, 0) + 1
                            continue
                        if not math.isfinite(v):
                            continue
                        res["evaluations"] += 1
                        got = out[sidx[st]]
                        if not abs(got - v) <= tl:
                            bad.setdefault((fname, "wrong-value"), (q, f"{st}: got {got!r}, expected {v!r} tol {tl:.3g} (slot {sidx[st]})"))
        res["traces"] += 1
    if len({v for _, v in vals_seen}) >= 2:
        res["nontrivial"] += 1
    for (fname, cls), (pt, msg) in sorted(bad.items()):
        fail(f"{ID}|{backend}|{fname}|{cls}", f"{tag}: {fname} {cls}: {msg} at {pt}", {"function": fname, "point": pt, "message": msg})


# ---------------------------------------------------------------------------
# E3 model structures
def _coef(j, k):
    # distinct dyadic coefficients per (assignment j, term k)
    return [1.5, -2.25, 0.75, 3.5, -0.625, 1.25, -1.75, 2.5, 0.375][(3 * j + k) % 9]


def fingerprint(j, deps):
    """c1*d1 + c2*d2 (+ c0): distinct coefficients so that any mis-wiring changes the value"""
    e = L.num(str(abs(_coef(j, 2))))
    if _coef(j, 2) < 0:
        e = L.neg(e)
    for k, d in enumerate(deps):
        c = _coef(j, k)
        term = L.bin_("*", L.num(str(abs(c))), L.var(d))
        e = L.bin_("-", e, term) if c < 0 else L.bin_("+", e, term)
    return e


def _subsets(names, kmax, allow_empty):
    out = [()] if allow_empty else []
    for k in range(1, kmax + 1):
        out += list(itertools.combinations(names, k))
    return out


def e3_shapes(tier):
    """dependency shapes: (i_deps list, dx_deps, dy_deps) over abstract names x y p i1 i2"""
    leaves = ("x", "y", "p")
    shapes = []
    kd = 2
    # zero intermediates
    for dx in _subsets(leaves, kd, True):
        for dy in _subsets(leaves, kd, True):
            shapes.append(((), dx, dy))
    # one intermediate
    for i1 in _subsets(leaves, kd, False):
        pool = leaves + ("i1",)
        for dx in _subsets(pool, kd, True):
            for dy in _subsets(pool, kd, True):
                shapes.append(((i1,), dx, dy))
    # two intermediates
    k2 = 1 if tier == "quick" else 2
    for i1 in _subsets(leaves, k2, False):
        for i2 in _subsets(leaves + ("i1",), k2, False):
            pool = leaves + ("i1", "i2")
            for dx in _subsets(pool, k2, True):
                for dy in _subsets(pool, k2, True):
                    shapes.append(((i1, i2), dx, dy))
    if tier != "quick":
        # three intermediates, singleton dependencies (chains / fans of depth 3)
        for i1 in _subsets(leaves, 1, False):
            for i2 in _subsets(leaves + ("i1",), 1, False):
                for i3 in _subsets(("x", "i1", "i2"), 1, False):
                    pool = ("x", "p", "i1", "i2", "i3")
                    for dx in _subsets(pool, 1, True):
                        for dy in _subsets(pool, 1, True):
                            shapes.append(((i1, i2, i3), dx, dy))
    return shapes


NAMINGS = (
    {"x": "x", "y": "y", "p": "p", "i1": "a1", "i2": "b2", "i3": "c3", "q": "q"},
    {"x": "v", "y": "u", "p": "k", "i1": "zb", "i2": "za", "i3": "yz", "q": "j"},
)


def shape_spec(shape, naming, order="def", layout="flat", unused=None, pvalue=None, tdep=False):
    ideps, dx, dy = shape
    nm = NAMINGS[naming]
    assigns = []
    for j, deps in enumerate(ideps):
        assigns.append((nm[f"i{j + 1}"], fingerprint(j, [nm[d] for d in deps])))
    n_i = len(ideps)
    ex = fingerprint(n_i, [nm[d] for d in dx])
    if tdep:
        ex = L.bin_("+", ex, L.bin_("*", L.num("0.5"), L.var("t")))
    assigns.append((f"d{nm['x']}_dt", ex))
    assigns.append((f"d{nm['y']}_dt", fingerprint(n_i + 1, [nm[d] for d in dy])))
    states = [(nm["x"], L.num("1.0")), (nm["y"], L.num("2.0"))]
    params = [(nm["p"], pvalue or L.num("0.5"))]
    comp = {}
    if unused == "param":
        params.append((nm["q"], L.num("3.0")))
    elif unused == "param-first":
        params.insert(0, ("aa", L.num("3.0")))
    elif unused == "state":
        states.append(("w0", L.num("4.0")))
        assigns.append(("dw0_dt", L.num("1.25")))
    elif unused == "inter":
        assigns.insert(0, ("unused1", fingerprint(7, [nm["x"], nm["p"]])))
    elif unused == "inter-last":
        assigns.append(("zzz", fingerprint(7, [nm["y"]])))
    elif unused == "chain":
        assigns.insert(0, ("ua", fingerprint(7, [nm["p"]])))
        assigns.insert(1, ("ub", fingerprint(8, ["ua", nm["y"]])))
    elif unused == "inter-of-unused-param":
        params.append((nm["q"], L.num("3.0")))
        assigns.insert(0, ("uq", fingerprint(7, [nm["q"]])))
    names_in_order = [n for n, _ in assigns]
    if order == "rev":
        names_in_order = names_in_order[::-1]
    if layout == "split":
        # states with their derivatives in A / B, intermediates and parameters in C
        comp[nm["x"]] = "A"
        comp[f"d{nm['x']}_dt"] = "A"
        comp[nm["y"]] = "B"
        comp[f"d{nm['y']}_dt"] = "B"
        for n, _ in params:
            comp[n] = "C"
        for n, _ in assigns:
            if n not in comp:
                comp[n] = "C"
        if unused == "state":
            comp["w0"] = "C"
            comp["dw0_dt"] = "C"
    elif layout == "two":
        comp[nm["x"]] = "A"
        comp[f"d{nm['x']}_dt"] = "A"
        for n, _ in assigns:
            if n.startswith("d") and n.endswith("_dt"):
                continue
            comp[n] = "A"
    return spec(states, params, assigns, comp=comp, order=names_in_order)


def bounds(tier):
    return {"states": "2 (+1 unused)", "parameters": "1 (+1 unused)", "intermediates": "<=2 quick / <=3 thorough",
            "dependency_set_size": "<=2 (two-intermediate shapes: <=1 quick, <=2 thorough)",
            "namings": len(NAMINGS), "variants": ["order def/rev", "layout flat/split/two", "unused param/state/inter/chain",
                                                  "parameter value expression", "explicit t"]}


def e3_specs(tier, variants=True, deep=False):
    """-> list of (key, spec).  All shapes x namings; the variant dimensions (order, layout, unused, parameter-value
    expression, t) are applied to every shape whose dependency sets are singletons or empty (stated bound)."""
    out = []
    # the deep shape family (two-intermediate shapes with <= 2 dependencies, three-intermediate chains: 17 431 shapes) is only used where one
    # model costs milliseconds (C01); everywhere else the thorough tier has the same E3 specs as quick (the checks drop their quick-only
    # naming filter, which doubles their share) and differs in the other dimensions (E1 depth, grids, options, backends)
    shapes = e3_shapes("thorough" if (deep and tier != "quick") else "quick")
    tier = tier if (deep or tier == "quick") else "quick+"
    for si, sh in enumerate(shapes):
        for nmg in range(len(NAMINGS)):
            if tier == "thorough" and nmg > 0 and len(sh[0]) > 1:
                continue  # thorough: the second naming for the shapes with <= 1 intermediate (and for every variant below)
            out.append((f"E3|{si:05d}|n{nmg}|def|flat|-", shape_spec(sh, nmg)))
    if variants:
        small = [(si, sh) for si, sh in enumerate(shapes)
                 if all(len(d) <= 1 for d in sh[0]) and len(sh[1]) <= 1 and len(sh[2]) <= 1 and len(sh[0]) <= 2]
        if tier in ("quick", "quick+"):
            # quick (and the non-deep thorough family): zero/one-intermediate shapes, and two-intermediate *chains* (i2 defined from i1) read through x, p or i2
            small = [(si, sh) for si, sh in small
                     if len(sh[0]) <= 1 or (sh[0][1] == ("i1",) and set(sh[1]) <= {"x", "p", "i2"} and set(sh[2]) <= {"x", "p", "i2"})]
        pv = L.bin_("+", L.bin_("*", L.num("2"), L.num("3")), L.call("exp", L.num("0")))
        for si, sh in small:
            for nmg in range(len(NAMINGS)):
                for order, layout, unused, pvalue, tdep in (
                    ("rev", "flat", None, None, False), ("def", "split", None, None, False), ("rev", "split", None, None, False),
                    ("def", "two", None, None, False), ("def", "flat", "param", None, False), ("def", "flat", "param-first", None, False),
                    ("def", "flat", "state", None, False), ("def", "flat", "inter", None, False), ("def", "flat", "inter-last", None, False),
                    ("def", "flat", "chain", None, False), ("rev", "split", "chain", None, False), ("def", "flat", "inter-of-unused-param", None, False),
                    ("def", "flat", None, pv, False), ("def", "flat", None, None, True), ("rev", "two", "inter", None, True),
                ):
                    if tier == "quick" and nmg == 1 and unused is None and layout == "flat" and order == "def":
                        pass
                    out.append((f"E3|{si:05d}|n{nmg}|{order}|{layout}|{unused or '-'}{'|pv' if pvalue else ''}{'|t' if tdep else ''}",
                                shape_spec(sh, nmg, order, layout, unused, pvalue, tdep)))
    return out


OPTION_SETS = (
    {"delta": 0.5}, {"delta": 2.0 ** -10}, {"delta": 0.0},
    {"delta": 0.5, "scheme": ["hybrid_rush_larsen", "explicit_euler", "generalized_rush_larsen"]},
    {"delta": 0.5, "scheme": ["explicit_euler", "generalized_rush_larsen"]},
    {"delta": 0.5, "remove_unused": True},
)


def option_items(ID):
    """get_code keyword combinations (non-default delta, scheme list orders / aliases, remove_unused) x a few rate models: the by-name
    module oracle with the reference formulas evaluated under the same options"""
    want = ("rate|x**2", "rate|gate", "rate|cos(x)/p", "rate|fhn", "rate|p-abs(x)")
    rs = dict(rate_specs())
    its = []
    for key in want:
        for i, o in enumerate(OPTION_SETS):
            its.append({"key": f"options|{key}|{i}", "kind": "options", "specs": [[f"options|{key}|{i}", rs[key]]], "opts": dict(o),
                        "sample": {"rate": key, "options": dict(o)}})
    return its


def run_option_item(item, res, ID, backends):
    o = dict(item["opts"])
    o.setdefault("scheme", list(SCHEMES))
    sp = item["specs"][0][1]
    o.setdefault("stiff_states", [Ref(sp).states[0]])
    functions = ("rhs", "monitor_values") + tuple(o["scheme"])
    run_model_item(item, res, ID, backends=backends, functions=functions, opts=o)


def redeclared_specs():
    """a parameter declared identically in the `parameters(...)` blocks of two components (accepted by the loader): it is one parameter with
    one slot, and every generated function reads the slot that `parameter_index` / the `parameter` dict names (first / middle / last
    position in the name order)"""
    n, v = L.num, L.var
    out = []
    for nm in ("F", "a", "z"):
        comp = {"m": "Na", "k": "K", nm: "Na", "g": "Na", "h": "K", "dm_dt": "Na", "dk_dt": "K", "i": "K"}
        sp = spec([("m", n("0.1")), ("k", n("0.3"))], [(nm, n("96.5")), ("g", n("1.0")), ("h", n("2.0"))],
                  [("dm_dt", L.bin_("-", L.bin_("*", v("g"), v(nm)), v("m"))), ("i", L.bin_("*", v(nm), v("h"))), ("dk_dt", L.bin_("-", L.bin_("*", v("i"), v("k")), v("m")))],
                  comp=comp, extra={"redeclare": [["parameters", nm, "K"]]})
        out.append((f"redecl|parameter-{nm}", sp))
    return out


def model_items(tier, ID, variants=True, group=12, deep=False):
    specs = degenerate_specs() + e3_specs(tier, variants, deep=deep)
    items = []
    for ch in E.chunks(specs, group):
        items.append({"key": f"{ch[0][0]}..{ch[-1][0]}", "kind": "models", "specs": [[k, s] for k, s in ch],
                      "sample": {"family": "E3", "first_key": ch[0][0], "first_text": spec_text(ch[0][1]), "n": len(ch)}})
    return items


def run_model_item(item, res, ID, backends=("numpy",), functions=("rhs",), opts=None, dts=(0.125,)):
    opts = dict(opts or {})
    for key, sp in item["specs"]:
        res["states"] += 1
        text = spec_text(sp)
        ref = Ref(sp)

        for backend in backends:
            def fail(finding, what, detail, _b=backend):
                res["failures"].append({"finding": finding, "what": what, "size": len(text), "detail": dict(detail, text=text, backend=_b, opts=opts),
                                        "replay_item": {"key": key, "kind": "models", "specs": [[key, sp]]}})
            try:
                mod = build(text, backend, **opts)
                res["transitions"] += 3
            except StageError as ex:
                fail(f"{ID}|{backend}|{ex.stage}-error", f"{key}: accepted/valid model fails at {ex.stage}: {ex}", {"exception": str(ex)})
                continue
            check_module(ref, mod, res, ID, functions, opts, key, fail, dts=dts)


# ---------------------------------------------------------------------------
# rate family for the scheme properties (C05, C06, C07, C14)
def rate_family():
    """-> list of (name, ast) : rate expressions for the own state x (other names: y state, p parameter,
    i intermediate that itself depends on x and must be held fixed when linearising)"""
    n = L.num
    x, y, p, i = L.var("x"), L.var("y"), L.var("p"), L.var("i")
    out = []
    coefs = (("2", n("2")), ("-0.5", L.neg(n("0.5"))), ("p", p), ("y", y), ("i", i), ("0", n("0")))
    offs = (("1", n("1")), ("p", p), ("y", y), ("i", i))
    for an, a in coefs:
        for bn, b in offs:
            out.append((f"affine[{an},{bn}]", L.bin_("+", L.bin_("*", a, x), b)))
    nl = [
        ("x**2", L.bin_("**", x, n("2"))), ("x**3", L.bin_("**", x, n("3"))), ("x**p", L.bin_("**", x, p)),
        ("exp(-x)", L.call("exp", L.neg(x))), ("exp(x*p)", L.call("exp", L.bin_("*", x, p))), ("log(x)", L.call("log", x)),
        ("sqrt(x)", L.call("sqrt", x)), ("sin(x)", L.call("sin", x)), ("cos(x)", L.call("cos", x)), ("tan(x)", L.call("tan", x)),
        ("atan(x)", L.call("atan", x)),
        ("1/x", L.bin_("/", n("1"), x)), ("(1-x)/(p+y)", L.bin_("/", L.bin_("-", n("1"), x), L.bin_("+", p, y))),
        ("abs(x)", L.call("abs", x)), ("floor(x)", L.call("floor", x)), ("Mod(x,p)", L.call("Mod", x, p)),
        ("cond-x", L.cond(L.rel("Gt", x, n("0")), L.neg(x), L.bin_("*", n("2"), x))),
        ("cond-xx", L.cond(L.rel("Lt", x, p), L.bin_("*", x, x), p)),
        ("cond-and", L.cond(("and", L.rel("Gt", x, n("0")), L.rel("Lt", y, n("1")), L.rel("Ge", p, n("0"))), L.bin_("*", L.neg(p), x), x)),
        ("ccond", ("ccond", "Gt", x, n("0"), L.bin_("*", n("2"), x), L.neg(x), n("0.5"))),
        ("x-x", L.bin_("-", x, x)), ("x/x", L.bin_("/", x, x)),
        ("gate", L.bin_("-", L.bin_("*", p, L.bin_("-", n("1"), x)), L.bin_("*", y, x))),
        ("(p-x)/y", L.bin_("/", L.bin_("-", p, x), y)), ("x*(1/4)", L.bin_("*", x, L.bin_("/", n("1"), n("4")))),
        ("-x/(1+y*y)", L.bin_("/", L.neg(x), L.bin_("+", n("1"), L.bin_("*", y, y)))), ("x*y*p", L.bin_("*", L.bin_("*", x, y), p)),
        ("abs(x)*x", L.bin_("*", L.call("abs", x), x)), ("p*x+t", L.bin_("+", L.bin_("*", p, x), L.var("t"))),
        ("const", n("1.5")), ("y-only", L.bin_("*", n("2"), y)),
        ("exp(-x*x)", L.call("exp", L.neg(L.bin_("*", x, x)))), ("x*exp(i)", L.bin_("*", x, L.call("exp", i))),
        ("stiff", L.bin_("*", L.neg(n("1000")), L.bin_("-", x, p))),
        ("p-abs(x)", L.bin_("-", p, L.call("abs", x))), ("abs(x-1)+y", L.bin_("+", L.call("abs", L.bin_("-", x, n("1"))), y)), ("1-2*abs(x)", L.bin_("-", n("1"), L.bin_("*", n("2"), L.call("abs", x)))),
        # derivatives that are identically zero (every way of writing zero), and a state that only occurs in a condition
        ("zero", n("0")), ("zero-float", n("0.0")), ("p-p", L.bin_("-", p, p)), ("0*x", L.bin_("*", n("0"), x)), ("x*0+y-y", L.bin_("-", L.bin_("+", L.bin_("*", x, n("0")), y), y)),
        ("only-in-condition", L.cond(L.rel("Gt", x, p), L.neg(y), y)), ("only-in-condition-2", L.cond(("and", L.rel("Lt", x, n("1")), L.rel("Gt", y, n("0"))), n("1.5"), p)),
        # nonlinear in the own state, divided by / multiplied with other names (g has several symbolic factors)
        ("fhn", L.bin_("/", L.bin_("-", L.bin_("-", x, L.bin_("/", L.bin_("**", x, n("3")), n("3"))), y), p)), ("cos(x)/p", L.bin_("/", L.call("cos", x), p)),
        ("x*x/p", L.bin_("/", L.bin_("*", x, x), p)), ("sin(x)*x/p", L.bin_("/", L.bin_("*", L.call("sin", x), x), p)), ("(1-x*x)*y", L.bin_("*", L.bin_("-", n("1"), L.bin_("*", x, x)), y)),
        ("exp(-x)/(1+p*p)", L.bin_("/", L.call("exp", L.neg(x)), L.bin_("+", n("1"), L.bin_("*", p, p)))), ("x**2/(y*p)", L.bin_("/", L.bin_("**", x, n("2")), L.bin_("*", y, p))),
    ]
    return out + nl


def rate_spec(rate_ast, yrate=None):
    n = L.num
    yrate = yrate or L.bin_("-", L.var("p"), L.bin_("*", n("0.75"), L.var("y")))
    return spec([("x", n("1.0")), ("y", n("2.0"))], [("p", n("0.5"))],
                [("i", L.bin_("+", L.bin_("*", n("0.5"), L.var("x")), L.var("p"))), ("dx_dt", rate_ast), ("dy_dt", yrate)])


def rate_specs():
    return [(f"rate|{name}", rate_spec(a)) for name, a in rate_family()]


def degenerate_specs():
    """models at the edges of the structure space: no parameters, a single state, no intermediates, only constants, many states"""
    n, v = L.num, L.var
    out = [
        ("deg|one-state-no-params", spec([("x", n("1.0"))], [], [("dx_dt", L.neg(v("x")))])),
        ("deg|two-states-no-params", spec([("x", n("1.0")), ("y", n("2.0"))], [], [("i", L.bin_("*", v("x"), v("y"))), ("dx_dt", L.bin_("-", v("i"), v("x"))), ("dy_dt", L.bin_("*", n("0.5"), v("x")))])),
        ("deg|no-params-time-only", spec([("x", n("1.0"))], [], [("dx_dt", L.bin_("*", n("2"), v("t")))])),
        ("deg|constant-derivatives", spec([("x", n("1.0")), ("y", n("2.0"))], [("p", n("0.5"))], [("dx_dt", n("1.5")), ("dy_dt", L.neg(n("0.25")))])),
        ("deg|parameter-only-derivative", spec([("x", n("1.0"))], [("p", n("0.5")), ("q", n("1.5"))], [("dx_dt", L.bin_("*", v("p"), v("q")))])),
        ("deg|intermediate-constant", spec([("x", n("1.0"))], [("p", n("0.5"))], [("c", n("3")), ("dx_dt", L.bin_("-", v("c"), L.bin_("*", v("p"), v("x"))))])),
        # an intermediate that is literally zero (switched-off stimulus), used directly and through another intermediate
        ("deg|intermediate-zero", spec([("x", n("1.0")), ("y", n("2.0"))], [("p", n("0.5"))],
                                       [("i_stim", n("0")), ("i_tot", L.bin_("+", v("i_stim"), L.bin_("*", v("p"), v("x")))), ("off", n("0.0")),
                                        ("dx_dt", L.bin_("-", v("i_stim"), v("x"))), ("dy_dt", L.bin_("+", L.bin_("-", v("i_tot"), v("y")), v("off")))])),
        ("deg|intermediate-one-and-minus-one", spec([("x", n("1.0"))], [("p", n("0.5"))], [("one", n("1")), ("mone", L.neg(n("1"))), ("dx_dt", L.bin_("+", L.bin_("*", v("one"), v("p")), L.bin_("*", v("mone"), v("x"))))])),
        ("deg|six-states", spec([(f"s{i}", n(str(i + 0.5))) for i in range(6)], [("p", n("0.5"))],
                                [(f"ds{i}_dt", L.bin_("-", L.bin_("*", n(str(i + 1)), v(f"s{(i + 1) % 6}")), L.bin_("*", v("p"), v(f"s{i}")))) for i in range(6)])),
        ("deg|twelve-states", spec([(f"s{i}", n(str(i + 0.5))) for i in range(12)], [("p", n("0.5"))],
                                   [(f"m{i}", L.bin_("*", n(str(i + 1)), v(f"s{i}"))) for i in range(12)] +
                                   [(f"ds{i}_dt", L.bin_("-", v(f"m{(i + 5) % 12}"), L.bin_("*", v("p"), v(f"s{i}")))) for i in range(12)])),
        ("deg|names-by-case", spec([("X", n("1.0")), ("x", n("2.0"))], [("g_K", n("0.5")), ("G_K", n("1.5"))],
                                   [("i_K", L.bin_("*", v("g_K"), v("x"))), ("I_K", L.bin_("*", v("G_K"), v("X"))), ("dX_dt", L.bin_("-", v("i_K"), v("X"))), ("dx_dt", L.bin_("+", v("I_K"), v("x")))])),
        # names that are prefixes of each other: "sorted by state name" and "sorted by derivative name" are different orders
        ("deg|prefix-names", spec([("m", n("0.5")), ("mL", n("1.5")), ("m_", n("2.5"))], [("k", n("0.5")), ("k2", n("1.5"))],
                                  [("a", L.bin_("*", v("k"), v("m"))), ("a1", L.bin_("+", v("a"), v("mL"))), ("a_", L.bin_("*", v("k2"), v("m_"))),
                                   ("dm_dt", L.bin_("-", v("a1"), v("m"))), ("dmL_dt", L.bin_("-", v("a_"), L.bin_("*", v("mL"), v("k")))), ("dm__dt", L.bin_("-", v("a"), L.bin_("*", n("0.25"), v("m_"))))])),
        ("deg|prefix-names-2", spec([("x", n("0.5")), ("x2", n("1.5")), ("x_1", n("2.5")), ("xA", n("-0.5"))], [("p", n("0.5"))],
                                    [("dx_dt", L.bin_("-", v("x2"), v("x"))), ("dx2_dt", L.bin_("*", v("p"), v("x_1"))), ("dx_1_dt", L.bin_("-", v("xA"), L.bin_("*", n("2"), v("x_1")))), ("dxA_dt", L.bin_("+", v("x"), v("p")))])),
        # state derivatives read by other derivatives and by intermediates (monitored total current `i_tot = -Cm*dv_dt`)
        ("deg|derivative-in-derivative", spec([("x", n("1.0")), ("y", n("2.0"))], [("p", n("0.5"))],
                                              [("dx_dt", L.bin_("*", v("p"), L.bin_("*", v("x"), v("y")))), ("dy_dt", L.bin_("-", L.bin_("*", n("2"), v("dx_dt")), v("y")))])),
        ("deg|derivative-in-intermediate", spec([("x", n("1.0")), ("y", n("2.0"))], [("p", n("0.5"))],
                                                [("dx_dt", L.bin_("-", L.bin_("*", v("p"), v("y")), v("x"))), ("i_tot", L.bin_("*", L.neg(v("p")), v("dx_dt"))),
                                                 ("j", L.bin_("+", v("i_tot"), v("x"))), ("dy_dt", L.bin_("-", v("j"), L.bin_("*", v("y"), v("y"))))])),
        ("deg|derivative-only-monitored", spec([("x", n("1.0")), ("y", n("2.0"))], [("p", n("0.5"))],
                                               [("dx_dt", L.bin_("-", L.bin_("*", v("p"), v("y")), v("x"))), ("i_tot", L.bin_("*", L.neg(v("p")), v("dx_dt"))),
                                                ("dy_dt", L.bin_("-", v("x"), v("y")))])),
        # identifiers that are reserved words of a target language (printed with a suffix inside function bodies, looked up by their declared name)
        ("deg|reserved-words", spec([("lambda", n("1.0")), ("int", n("2.0"))], [("is", n("0.5")), ("double", n("1.5"))],
                                    [("in", L.bin_("*", v("is"), v("lambda"))), ("float", L.bin_("+", v("double"), v("int"))),
                                     ("dlambda_dt", L.bin_("-", v("in"), v("lambda"))), ("dint_dt", L.bin_("-", v("float"), L.bin_("*", v("int"), v("is"))))])),
        # a state that no expression reads (pure accumulator), first / last in the name order
        ("deg|unread-state-first", spec([("a", n("0.0")), ("x", n("1.0")), ("y", n("2.0"))], [("p", n("0.5"))],
                                        [("da_dt", L.bin_("*", v("p"), v("y"))), ("dx_dt", L.bin_("-", v("y"), v("x"))), ("dy_dt", L.bin_("*", L.neg(v("x")), v("y")))])),
        ("deg|unread-state-last", spec([("x", n("1.0")), ("y", n("2.0")), ("z", n("0.0"))], [("p", n("0.5"))],
                                       [("dx_dt", L.bin_("-", v("y"), v("x"))), ("i", L.bin_("*", v("x"), v("p"))), ("dy_dt", L.bin_("*", L.neg(v("i")), v("y"))), ("dz_dt", L.bin_("+", v("i"), v("y")))])),
        # explicit time dependence next to several other dependencies (forcing term), `time` and `t` both used
        ("deg|time-dependent", spec([("x", n("1.0")), ("y", n("2.0")), ("z", n("0.5"))], [("a", n("0.5")), ("w", n("1.5"))],
                                    [("dx_dt", L.bin_("-", L.bin_("+", L.bin_("*", v("a"), L.call("sin", L.bin_("*", v("w"), v("time")))), L.bin_("*", v("y"), v("z"))), v("x"))),
                                     ("i", L.bin_("*", L.bin_("*", v("a"), v("t")), v("z"))), ("dy_dt", L.bin_("*", L.neg(v("a")), v("y"))),
                                     ("dz_dt", L.bin_("+", L.bin_("*", v("w"), L.bin_("-", v("x"), v("z"))), v("i")))])),
        ("deg|long-names", spec([("membrane_potential_of_the_cell", n("1.0"))], [("a_rather_long_parameter_name_0123456789", n("0.5"))],
                                [("dmembrane_potential_of_the_cell_dt", L.bin_("*", L.neg(v("a_rather_long_parameter_name_0123456789")), v("membrane_potential_of_the_cell")))])),
    ]
    # long flat sums / products (a total current with many contributions): 12, 60 and 120 terms, every term varying with the states
    import functools
    for nterm in (12, 60, 120):
        terms = [L.bin_("*", n(str(k + 1)), v("x" if k % 2 == 0 else "y")) if k % 3 else L.bin_("*", v("x"), v("y")) for k in range(nterm)]
        total = functools.reduce(lambda a_, b_: L.bin_("+", a_, b_), terms)
        out.append((f"deg|long-sum-{nterm}", spec([("x", n("1.0")), ("y", n("2.0"))], [("p", n("0.5"))],
                                                  [("i_tot", total), ("dx_dt", L.bin_("-", L.bin_("*", v("p"), v("i_tot")), v("x"))), ("dy_dt", L.bin_("-", v("x"), v("y")))])))
    fac = [L.bin_("+", n("1"), L.bin_("*", n(f"0.{k + 1:02d}"), v("x" if k % 2 else "y"))) for k in range(40)]
    out.append(("deg|long-product-40", spec([("x", n("1.0")), ("y", n("2.0"))], [("p", n("0.5"))],
                                            [("g", functools.reduce(lambda a_, b_: L.bin_("*", a_, b_), fac)), ("dx_dt", L.bin_("-", v("g"), v("x"))), ("dy_dt", L.bin_("-", L.bin_("*", v("p"), v("x")), v("y")))])))
    out += redeclared_specs()
    return out
