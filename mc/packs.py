"""Expression packs: many enumerated expressions as separate states of one model.

Every expression e_i becomes `ds<i>_dt = e_i`; x, y are states with derivative 1,
p, q are parameters.  monitor/rhs return every assignment, so one load + one
generation + one compile serves hundreds of programs.
"""
from __future__ import annotations

import itertools

from . import lang as L
from . import enumerate as E

STATE_VARS = ("x", "y")
PARAM_VARS = ("p", "q")


def pack_text(exprs, full=False, used=None):
    """exprs: list of AST.  Returns (text, names)"""
    used = used or set().union(*[L.variables(e) for e in exprs]) if exprs else set()
    svars = [v for v in STATE_VARS if v in used] or ["x"]
    pvars = [v for v in PARAM_VARS if v in used] or ["p"]
    names = [f"s{i}" for i in range(len(exprs))]
    lines = []
    lines.append("parameters(" + ", ".join(f"{p}=0.5" for p in pvars) + ")")
    lines.append("states(" + ", ".join(f"{s}=1.0" for s in svars) + ", " + ", ".join(f"{n}=0.0" for n in names) + ")")
    for s in svars:
        lines.append(f"d{s}_dt = 1")
    for n, e in zip(names, exprs):
        lines.append(f"d{n}_dt = {L.render(e, full=full)}")
    return "\n".join(lines) + "\n", names, svars, pvars


def points_for(exprs, values3=E.V8, values4=E.V5):
    used = set().union(*[L.variables(e) for e in exprs]) if exprs else set()
    if "time" in used:
        used.add("t")
    names = [v for v in ("t", "x", "y", "p", "q") if v in used]
    vals = values3 if len(names) <= 3 else values4
    pts = []
    for tup in itertools.product(vals, repeat=len(names)):
        d = {"t": 0.0, "x": 1.0, "y": 2.0, "p": 0.5, "q": 3.0}
        d.update(zip(names, tup))
        pts.append(d)
    return pts


def reference(expr, pt):
    env = L.exact_env({"t": pt["t"], "time": pt["t"], "x": pt["x"], "y": pt["y"], "p": pt["p"], "q": pt["q"]})
    ev = L.Evaluator(env)
    v = ev.ev(expr)
    if L.illcond(v):
        raise L.Skip("ill-conditioned")
    return v, ev.outcomes


def screen(exprs):
    """drop programs with a variable-free undefined sub-expression (outside the domain for every input)"""
    keep, dropped = [], 0
    for e in exprs:
        if L.const_undefined(e):
            dropped += 1
        else:
            keep.append(e)
    return keep, dropped
