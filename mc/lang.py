"""Reference model of the gotranx .ode expression language.

Independent of lark / sympy / gotranx.  Written from docs/grammar.md and the
docstrings of sympytools.Conditional / ContinuousConditional.

AST nodes are plain tuples (JSON friendly):
  ('num', '2') ('var', 'x') ('pi',)
  ('neg', a) ('pos', a) ('bin', op, a, b)      op in + - * / **
  ('call', fname, a[, b])                       fname in FUNCS (Mod has two args)
  ('rel', op, a, b)                             op in Lt Gt Le Ge Eq
  ('not', c) ('and', c1, c2, ...) ('or', c1, ...)
  ('cond', c, a, b)
  ('ccond', relop, a, b, tv, fv, sigma)

Evaluation returns a Val(v, err, M, ex):
  v    float64 reference value
  err  first-order bound on the absolute rounding error that *any* reasonable
       float64 evaluation order of the same real expression may show
  M    largest magnitude of any intermediate (cancellation scale)
  ex   True when v is the exact real value and was obtained through ring
       operations on dyadic rationals only (comparisons on such values are decided
       exactly, independent of evaluation order)
A point outside the domain / too close to a discontinuity raises Skip(reason).
"""
from __future__ import annotations

import math
from fractions import Fraction

U = 2.0 ** -52
FUNCS1 = ("exp", "cos", "sin", "tan", "acos", "asin", "atan", "abs", "Abs", "floor", "ln", "log", "sqrt")
FUNCS = FUNCS1 + ("Mod",)
RELS = ("Lt", "Gt", "Le", "Ge", "Eq")
BIG = 1e150  # magnitude guard: beyond this we call the point out of range


class Skip(Exception):
    def __init__(self, reason):
        self.reason = reason


# ----------------------------------------------------------------------------
# constructors
def num(s):
    return ("num", str(s))


def var(n):
    return ("var", n)


def bin_(op, a, b):
    return ("bin", op, a, b)


def neg(a):
    return ("neg", a)


def call(f, *a):
    return ("call", f) + tuple(a)


def rel(op, a, b):
    return ("rel", op, a, b)


def cond(c, a, b):
    return ("cond", c, a, b)


def from_json(n):
    """JSON round trip turns tuples into lists"""
    if isinstance(n, (list, tuple)):
        return tuple(from_json(c) for c in n)
    return n


# ----------------------------------------------------------------------------
# rendering
_PREC = {"+": 1, "-": 1, "*": 2, "/": 2, "**": 4}


def _prec(n):
    k = n[0]
    if k == "bin":
        return _PREC[n[1]]
    if k in ("neg", "pos"):
        return 3
    return 9


def render(n, full=False, sp=" "):
    """Render an AST as .ode expression text.

    full=False: minimal parentheses under Python precedence / associativity.
    full=True : every compound sub-expression parenthesised.
    """
    k = n[0]
    if k == "num":
        return n[1]
    if k == "var":
        return n[1]
    if k == "pi":
        return "pi"
    if k in ("neg", "pos"):
        s = "-" if k == "neg" else "+"
        a = n[1]
        t = render(a, full, sp)
        if full:
            if a[0] in ("bin", "neg", "pos"):
                t = "(" + t + ")"
            return s + t
        # operand of a unary is a `factor`: unary factor | power
        if _prec(a) < 3:
            t = "(" + t + ")"
        return s + t
    if k == "bin":
        op, a, b = n[1], n[2], n[3]
        ta, tb = render(a, full, sp), render(b, full, sp)
        if full:
            if a[0] in ("bin", "neg", "pos"):
                ta = "(" + ta + ")"
            if b[0] in ("bin", "neg", "pos"):
                tb = "(" + tb + ")"
        else:
            p = _PREC[op]
            if op == "**":
                # left of ** is an atom-level thing; right is a `factor` (may be unary / another **)
                if _prec(a) <= 4:
                    ta = "(" + ta + ")"
                if _prec(b) < 3:
                    tb = "(" + tb + ")"
            else:
                if _prec(a) < p:
                    ta = "(" + ta + ")"
                if _prec(b) <= p and b[0] == "bin":
                    tb = "(" + tb + ")"
                elif _prec(b) < p:
                    tb = "(" + tb + ")"
        o = op if op == "**" else sp + op + sp
        return ta + o + tb
    if k == "call":
        return n[1] + "(" + ", ".join(render(a, full, sp) for a in n[2:]) + ")"
    if k == "rel":
        return n[1] + "(" + render(n[2], full, sp) + ", " + render(n[3], full, sp) + ")"
    if k == "not":
        return "Not(" + render(n[1], full, sp) + ")"
    if k == "and":
        return "And(" + ", ".join(render(a, full, sp) for a in n[1:]) + ")"
    if k == "or":
        return "Or(" + ", ".join(render(a, full, sp) for a in n[1:]) + ")"
    if k == "cond":
        return "Conditional(" + ", ".join(render(a, full, sp) for a in n[1:]) + ")"
    if k == "ccond":
        return (
            "ContinuousConditional("
            + n[1] + "(" + render(n[2], full, sp) + ", " + render(n[3], full, sp) + "), "
            + ", ".join(render(a, full, sp) for a in n[4:])
            + ")"
        )
    raise ValueError(n)


def variables(n, acc=None):
    if acc is None:
        acc = set()
    if n[0] == "var":
        acc.add(n[1])
    elif n[0] in ("num", "pi"):
        pass
    else:
        for c in n[1:]:
            if isinstance(c, tuple):
                variables(c, acc)
    return acc


def size(n):
    """number of operator nodes"""
    if n[0] in ("num", "var", "pi"):
        return 0
    return 1 + sum(size(c) for c in n[1:] if isinstance(c, tuple))


def subtrees(n):
    yield n
    for c in n[1:]:
        if isinstance(c, tuple):
            yield from subtrees(c)


# ----------------------------------------------------------------------------
# reference evaluation with running error bound
class Val(tuple):
    __slots__ = ()

    def __new__(cls, v, err, M, ex):
        return tuple.__new__(cls, (v, err, M, ex))

    v = property(lambda s: s[0])
    err = property(lambda s: s[1])
    M = property(lambda s: s[2])
    ex = property(lambda s: s[3])


def _lit(text):
    v = float(text)
    if "." in text or "e" in text or "E" in text:
        ex = Fraction(text) == Fraction(v) and abs(v) < 2 ** 40
        return Val(v, 0.0 if ex else U * abs(v), abs(v), ex)
    iv = int(text)
    ex = abs(iv) < 2 ** 53
    return Val(v, 0.0 if ex else U * abs(v), abs(v), ex)


def _chk(v):
    if v != v or v in (math.inf, -math.inf):
        raise Skip("nonfinite")
    if abs(v) > BIG:
        raise Skip("huge")
    return v


def _small_dyadic(v):
    # dyadic with few bits: ring operations on such values stay exact in every order
    if v == 0.0:
        return True
    m, e = math.frexp(v)
    return abs(v) < 2 ** 30 and (m * 2 ** 24) == int(m * 2 ** 24) and e > -30


class Evaluator:
    """Evaluate AST nodes under an environment name -> Val, lazily for conditionals.

    `defs` maps intermediate names to their defining AST (every intermediate
    stands for its defining expression)."""

    def __init__(self, env, defs=None, eq_guard=1e-9):
        self.env = dict(env)
        self.defs = defs or {}
        self.memo = {}
        self.active = set()
        self.guard = eq_guard
        self.outcomes = []  # branch outcomes observed, for coverage accounting

    def name(self, n):
        if n in self.env:
            return self.env[n]
        if n in self.memo:
            return self.memo[n]
        if n in self.defs:
            if n in self.active:
                raise Skip("cycle")
            self.active.add(n)
            try:
                v = self.ev(self.defs[n])
            finally:
                self.active.discard(n)
            self.memo[n] = v
            return v
        raise KeyError(n)

    def ev(self, n):
        k = n[0]
        if k == "num":
            return _lit(n[1])
        if k == "var":
            return self.name(n[1])
        if k == "pi":
            return Val(math.pi, U * math.pi, math.pi, False)
        if k == "pos":
            return self.ev(n[1])
        if k == "neg":
            a = self.ev(n[1])
            return Val(-a[0], a[1], a[2], a[3])
        if k == "bin":
            return self.binop(n[1], self.ev(n[2]), self.ev(n[3]))
        if k == "call":
            if n[1] == "Mod":
                return self.mod(self.ev(n[2]), self.ev(n[3]))
            return self.func(n[1], self.ev(n[2]))
        if k == "cond":
            c = self.cnd(n[1])
            self.outcomes.append(c)
            return self.ev(n[2]) if c else self.ev(n[3])
        if k == "ccond":
            return self.ccond(n)
        raise ValueError(f"not a numeric node: {n!r}")

    # ---- conditions
    def cnd(self, n):
        k = n[0]
        if k == "rel":
            a, b = self.ev(n[2]), self.ev(n[3])
            d = a[0] - b[0]
            scale = max(a[2], b[2], 1.0)
            if not (a[3] and b[3]):
                if abs(d) <= self.guard * scale or abs(d) <= 1e3 * (a[1] + b[1]):
                    raise Skip("near-equal-comparison")
            op = n[1]
            if op == "Lt":
                return d < 0
            if op == "Gt":
                return d > 0
            if op == "Le":
                return d <= 0
            if op == "Ge":
                return d >= 0
            if op == "Eq":
                return d == 0
            raise ValueError(op)
        if k == "not":
            return not self.cnd(n[1])
        if k == "and":
            # every operand is evaluated (generated code is not short-circuit: numpy.logical_and)
            r = [self.cnd(c) for c in n[1:]]
            return all(r)
        if k == "or":
            r = [self.cnd(c) for c in n[1:]]
            return any(r)
        raise ValueError(f"not a condition node: {n!r}")

    def ccond(self, n):
        _, op, a, b, tv, fv, sg = n
        a, b, tv, fv, sg = (self.ev(x) for x in (a, b, tv, fv, sg))
        d = self.binop("-", a, b)
        q = self.binop("/", d, sg)
        e = self.func("exp", q)
        one = Val(1.0, 0.0, 1.0, True)
        H = self.binop("/", one, self.binop("+", one, e))
        Hc = self.binop("-", one, H)
        if op in ("Gt", "Ge"):
            return self.binop("+", self.binop("*", tv, Hc), self.binop("*", fv, H))
        return self.binop("+", self.binop("*", tv, H), self.binop("*", fv, Hc))

    # ---- arithmetic
    def binop(self, op, a, b):
        av, ae, aM, ax = a
        bv, be, bM, bx = b
        M = max(aM, bM)
        if op == "+" or op == "-":
            v = av + bv if op == "+" else av - bv
            _chk(v)
            ex = ax and bx and _small_dyadic(v)
            err = ae + be + (0.0 if ex else U * (abs(av) + abs(bv)))
            return Val(v, err, max(M, abs(v)), ex)
        if op == "*":
            v = _chk(av * bv)
            ex = ax and bx and _small_dyadic(v) and Fraction(av) * Fraction(bv) == Fraction(v)
            err = abs(av) * be + abs(bv) * ae + (0.0 if ex else 2 * U * abs(v))
            return Val(v, err, max(M, abs(v)), ex)
        if op == "/":
            if bv == 0.0:
                raise Skip("div0")
            if abs(bv) <= 1e3 * be:
                raise Skip("div-near0")
            v = _chk(av / bv)
            # exact only for division by a power of two
            m, _e = math.frexp(bv)
            ex = ax and bx and abs(m) == 0.5 and _small_dyadic(v)
            if abs(bv) < 1e-150:
                raise Skip("div-tiny")
            err = ae / abs(bv) + abs(av) * be / (bv * bv) + (0.0 if ex else 3 * U * abs(v))
            return Val(v, err, max(M, abs(v), abs(1.0 / bv)), ex)
        if op == "**":
            return self.power(a, b)
        raise ValueError(op)

    def power(self, a, b):
        av, ae, aM, ax = a
        bv, be, bM, bx = b
        M = max(aM, bM)
        if av == 0.0:
            if bv < 0:
                raise Skip("0**neg")
            if bv == 0.0:
                if not (ax and bx):
                    raise Skip("0**0-inexact")
                return Val(1.0, 0.0, max(M, 1.0), True)
            if not ax:
                raise Skip("0-inexact-base")
            if be and abs(bv) <= 1e3 * be:
                raise Skip("pow-exp-near0")
            return Val(0.0, 0.0, M, bx and bv == int(bv))
        if av < 0:
            if bv != int(bv):
                raise Skip("neg**frac")
            if not bx:
                raise Skip("neg**inexact-int")
        try:
            v = math.pow(av, bv)
        except (OverflowError, ValueError):
            raise Skip("pow-domain")
        _chk(v)
        ex = False
        if ax and bx and bv == int(bv) and 0 <= bv <= 8:
            ex = _small_dyadic(v) and Fraction(av) ** int(bv) == Fraction(v)
        elif ax and bx and bv == int(bv) and -8 <= bv < 0:
            m, _e = math.frexp(av)
            ex = abs(m) == 0.5 and _small_dyadic(v)
        la = abs(math.log(abs(av))) if av != 0 else 0.0
        err = abs(bv * v / av) * ae + abs(v) * la * be + (0.0 if ex else 8 * U * abs(v) * (1 + abs(bv) * la))
        return Val(v, err, max(M, abs(v)), ex)

    def func(self, f, a):
        av, ae, aM, ax = a
        try:
            if f == "exp":
                if av > 300:
                    raise Skip("exp-overflow")
                v = math.exp(av)
                d = v
            elif f == "sin":
                v, d = math.sin(av), abs(math.cos(av)) + U
            elif f == "cos":
                v, d = math.cos(av), abs(math.sin(av)) + U
            elif f == "tan":
                v = math.tan(av)
                d = 1 + v * v
            elif f in ("asin", "acos"):
                if abs(av) > 1:
                    raise Skip(f + "-domain")
                if abs(av) == 1 and not ax:
                    raise Skip(f + "-edge")
                v = math.asin(av) if f == "asin" else math.acos(av)
                if abs(av) == 1:
                    d = 0.0
                else:
                    d = 1 / math.sqrt(1 - av * av)
                    if 1 - abs(av) <= 1e3 * ae:
                        raise Skip(f + "-edge")
            elif f == "atan":
                v, d = math.atan(av), 1 / (1 + av * av)
            elif f in ("abs", "Abs"):
                v, d = abs(av), 1.0
                return Val(v, ae, aM, ax)
            elif f == "floor":
                fl = math.floor(av)
                if not ax:
                    frac = av - fl
                    g = max(1e-9 * max(1.0, abs(av)), 1e3 * ae)
                    if frac <= g or 1 - frac <= g:
                        raise Skip("floor-edge")
                return Val(float(fl), 0.0, max(aM, abs(fl)), ax)
            elif f in ("ln", "log"):
                if av < 0:
                    raise Skip("log-domain")
                if av == 0:
                    raise Skip("log0")
                if av <= 1e3 * ae:
                    raise Skip("log-near0")
                v, d = math.log(av), 1 / av
            elif f == "sqrt":
                if av < 0:
                    raise Skip("sqrt-domain")
                if av == 0:
                    if not ax:
                        raise Skip("sqrt0-inexact")
                    return Val(0.0, 0.0, aM, True)
                if av <= 1e3 * ae:
                    raise Skip("sqrt-near0")
                v = math.sqrt(av)
                d = 0.5 / v
            else:
                raise ValueError(f)
        except (OverflowError, ValueError) as e:
            if isinstance(e, ValueError) and str(e) == f:
                raise
            raise Skip(f + "-domain")
        _chk(v)
        err = d * ae + 4 * U * abs(v) + (4 * U * abs(av) * d if f in ("sin", "cos", "tan", "exp") else 0.0)
        return Val(v, err, max(aM, abs(v)), False)

    def mod(self, a, b):
        av, ae, aM, ax = a
        bv, be, bM, bx = b
        if bv == 0:
            raise Skip("mod0")
        q = av / bv
        fl = math.floor(q)
        if not (ax and bx):
            frac = q - fl
            g = max(1e-9 * max(1.0, abs(q)), 1e3 * (ae / abs(bv) + abs(q) * be / abs(bv)))
            if frac <= g or 1 - frac <= g:
                raise Skip("mod-edge")
        v = av - bv * fl  # mathematical definition: sign of the divisor
        if ax and bx:
            v2 = float(Fraction(av) - Fraction(bv) * fl)
            ex = v2 == v and _small_dyadic(v)
        else:
            ex = False
        _chk(v)
        err = ae + abs(fl) * be + (0.0 if ex else 4 * U * (abs(av) + abs(bv * fl)))
        return Val(v, err, max(aM, bM, abs(v)), ex)


def tol(val: Val, rel_floor=1e-12, k=1e3):
    return max(rel_floor * val[2], k * val[1], 1e-300)


def illcond(val: Val):
    v, err = val[0], val[1]
    return err > 1e-6 * max(abs(v), 1e-300) and err > 1e-9 * val[2]


def close(got, val: Val):
    return abs(got - val[0]) <= tol(val)


def exact_env(values: dict):
    return {k: Val(float(v), 0.0, abs(float(v)), _small_dyadic(float(v))) for k, v in values.items()}


# ----------------------------------------------------------------------------
# constant sub-expression screening (a program with an undefined variable-free
# sub-expression is outside the domain for every input)
def const_undefined(n):
    for s in subtrees(n):
        if s[0] in ("bin", "call", "neg", "pos", "cond", "ccond") and not variables(s):
            try:
                Evaluator({}).ev(s)
            except Skip as e:
                if e.reason in ("near-equal-comparison",):
                    continue
                return True
            except (KeyError, ValueError):
                continue
    return False


# ----------------------------------------------------------------------------
# forward-mode derivative (plain floats) for the Rush-Larsen / Jacobian oracles
class Dual:
    """value/derivative pairs on the same AST.  `seed` maps names to d(name)/dx;
    `through` = True differentiates through intermediates (Jacobian), False holds
    every other name fixed (the g of the generalized Rush-Larsen scheme)."""

    def __init__(self, env, defs, seed, through):
        self.env = {k: (v[0] if isinstance(v, tuple) else float(v)) for k, v in env.items()}
        self.defs = defs or {}
        self.seed = seed
        self.through = through
        self.memo = {}
        self.kink = False

    def name(self, n):
        if n in self.env:
            return (self.env[n], float(self.seed.get(n, 0.0)))
        if n in self.memo:
            return self.memo[n]
        v = self.ev(self.defs[n])
        if not self.through:
            v = (v[0], 0.0)
        self.memo[n] = v
        return v

    def ev(self, n):
        k = n[0]
        if k == "num":
            return (float(n[1]), 0.0)
        if k == "var":
            return self.name(n[1])
        if k == "pi":
            return (math.pi, 0.0)
        if k == "pos":
            return self.ev(n[1])
        if k == "neg":
            a = self.ev(n[1])
            return (-a[0], -a[1])
        if k == "bin":
            op = n[1]
            a, b = self.ev(n[2]), self.ev(n[3])
            if op == "+":
                return (a[0] + b[0], a[1] + b[1])
            if op == "-":
                return (a[0] - b[0], a[1] - b[1])
            if op == "*":
                return (a[0] * b[0], a[1] * b[0] + a[0] * b[1])
            if op == "/":
                if b[0] == 0:
                    raise Skip("div0")
                return (a[0] / b[0], (a[1] * b[0] - a[0] * b[1]) / (b[0] * b[0]))
            if op == "**":
                try:
                    v = math.pow(a[0], b[0])
                    d = 0.0
                    if a[1] != 0.0:
                        if a[0] == 0.0:
                            if b[0] == 1.0:
                                d += a[1]
                            elif b[0] > 1.0:
                                d += 0.0
                            elif b[0] == 0.0:
                                d += 0.0
                            else:
                                raise Skip("dpow-at0")
                        else:
                            d += b[0] * math.pow(a[0], b[0] - 1) * a[1]
                    if b[1] != 0.0:
                        if a[0] <= 0:
                            raise Skip("dpow-log")
                        d += v * math.log(a[0]) * b[1]
                    return (v, d)
                except (OverflowError, ValueError, ZeroDivisionError):
                    raise Skip("pow-domain")
        if k == "call":
            f = n[1]
            if f == "Mod":
                a, b = self.ev(n[2]), self.ev(n[3])
                if b[0] == 0:
                    raise Skip("mod0")
                fl = math.floor(a[0] / b[0])
                if a[0] / b[0] == fl and (a[1] != 0 or b[1] != 0):
                    raise Skip("mod-kink")
                return (a[0] - b[0] * fl, a[1] - b[1] * fl)
            a = self.ev(n[2])
            x, dx = a
            try:
                if f == "exp":
                    v = math.exp(x)
                    return (v, v * dx)
                if f == "sin":
                    return (math.sin(x), math.cos(x) * dx)
                if f == "cos":
                    return (math.cos(x), -math.sin(x) * dx)
                if f == "tan":
                    v = math.tan(x)
                    return (v, (1 + v * v) * dx)
                if f == "asin":
                    return (math.asin(x), dx / math.sqrt(1 - x * x) if dx else 0.0)
                if f == "acos":
                    return (math.acos(x), -dx / math.sqrt(1 - x * x) if dx else 0.0)
                if f == "atan":
                    return (math.atan(x), dx / (1 + x * x))
                if f in ("abs", "Abs"):
                    if x == 0 and dx != 0:
                        raise Skip("abs-kink")
                    return (abs(x), dx if x > 0 else -dx)
                if f == "floor":
                    if x == math.floor(x) and dx != 0:
                        raise Skip("floor-kink")
                    return (float(math.floor(x)), 0.0)
                if f in ("ln", "log"):
                    return (math.log(x), dx / x)
                if f == "sqrt":
                    if x == 0 and dx != 0:
                        raise Skip("sqrt-kink")
                    v = math.sqrt(x)
                    return (v, 0.5 * dx / v if dx else 0.0)
            except (OverflowError, ValueError, ZeroDivisionError):
                raise Skip(f + "-domain")
            raise ValueError(f)
        if k == "cond":
            c = self.cnd(n[1])
            return self.ev(n[2]) if c else self.ev(n[3])
        if k == "ccond":
            _, op, a, b, tv, fv, sg = n
            one = ("num", "1")
            H = ("bin", "/", one, ("bin", "+", one, ("call", "exp", ("bin", "/", ("bin", "-", a, b), sg))))
            Hc = ("bin", "-", one, H)
            if op in ("Gt", "Ge"):
                e = ("bin", "+", ("bin", "*", tv, Hc), ("bin", "*", fv, H))
            else:
                e = ("bin", "+", ("bin", "*", tv, H), ("bin", "*", fv, Hc))
            return self.ev(e)
        raise ValueError(n)

    def cnd(self, n):
        k = n[0]
        if k == "rel":
            a, b = self.ev(n[2]), self.ev(n[3])
            d = a[0] - b[0]
            if d == 0 and (a[1] != b[1]):
                raise Skip("cond-kink")
            return {"Lt": d < 0, "Gt": d > 0, "Le": d <= 0, "Ge": d >= 0, "Eq": d == 0}[n[1]]
        if k == "not":
            return not self.cnd(n[1])
        if k == "and":
            return all([self.cnd(c) for c in n[1:]])
        if k == "or":
            return any([self.cnd(c) for c in n[1:]])
        raise ValueError(n)


# ----------------------------------------------------------------------------
# models
class Model:
    """A reference model: ordered declarations + assignments.

    states / parameters: list of (name, value_ast)  (value may be an expression)
    assigns: list of (name, ast)  - intermediates and d<state>_dt, any order
    layout: how to print it (components, text order) - see render_model
    """

    def __init__(self, states, parameters, assigns):
        self.states = list(states)
        self.parameters = list(parameters)
        self.assigns = list(assigns)
        self.defs = dict(self.assigns)

    @property
    def state_names(self):
        return [s for s, _ in self.states]

    @property
    def parameter_names(self):
        return [p for p, _ in self.parameters]

    @property
    def intermediates(self):
        ders = {f"d{s}_dt" for s in self.state_names}
        return [n for n, _ in self.assigns if n not in ders]

    def default_values(self, which):
        out = {}
        for n, a in (self.states if which == "states" else self.parameters):
            out[n] = Evaluator({}).ev(a)[0]
        return out

    def env(self, t, states, parameters):
        e = {"t": t, "time": t}
        e.update(states)
        e.update(parameters)
        return exact_env(e)

    def evaluator(self, t, states, parameters):
        return Evaluator(self.env(t, states, parameters), self.defs)

    def text(self):
        lines = []
        if self.parameters:
            lines.append("parameters(" + ", ".join(f"{n}={render(a)}" for n, a in self.parameters) + ")")
        lines.append("states(" + ", ".join(f"{n}={render(a)}" for n, a in self.states) + ")")
        for n, a in self.assigns:
            lines.append(f"{n} = {render(a)}")
        return "\n".join(lines) + "\n"
