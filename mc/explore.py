"""Work-list explorer / runner shared by all checks.

A check module provides
  ID, LEVEL ('model_checking' | 'fault_enumeration'), RULE (str), ASSUMPTIONS (list[str])
  items(tier) -> list[dict]       every item has a unique canonical 'key' (de-dup) and is JSON-able
  run_item(item) -> dict          executes the real code; returns
       {'transitions': int, 'traces': int, 'evaluations': int, 'nontrivial': bool,
        'outcomes': [hashable...], 'skipped': {reason: n},
        'failures': [{'finding': <canonical finding key>, 'what': str, 'detail': {...}}]}
  bounds(tier) -> dict            (optional) stated bounds for the evidence file

The runner enumerates *all* items (no sampling), shards them over forked workers,
matches failures against /verif/known_findings.json, re-executes every unlisted
failure twice in fresh processes and writes evidence/<ID>.json.
"""
from __future__ import annotations

import hashlib
import importlib
import json
import multiprocessing as mp
import os
import signal
import subprocess
import sys
import time
import traceback

ROOT = os.path.dirname(os.path.dirname(os.path.abspath(__file__)))
PY = "/venv/bin/python"


class ItemTimeout(Exception):
    pass


def _alarm(signum, frame):
    raise ItemTimeout()


def load_check(cid):
    return importlib.import_module(f"checks.{cid.lower()}")


def _worker_init():
    signal.signal(signal.SIGALRM, _alarm)
    signal.signal(signal.SIGTERM, signal.SIG_DFL)


def _run_one(args):
    cid, item, budget = args
    mod = load_check(cid)
    t0 = time.time()
    try:
        signal.alarm(budget)
        try:
            res = mod.run_item(item)
        finally:
            signal.alarm(0)
    except ItemTimeout:
        res = {"failures": [{"finding": f"{cid}|harness|timeout", "what": f"item exceeded {budget}s", "detail": {}}]}
    except Exception:
        res = {"harness_error": traceback.format_exc()[-3000:]}
    res["key"] = item["key"]
    res["wall"] = time.time() - t0
    return res


def known_findings():
    p = os.path.join(ROOT, "known_findings.json")
    if not os.path.exists(p):
        return []
    return json.load(open(p))


def replay_path(cid, item, finding):
    h = hashlib.sha1((finding + "\0" + json.dumps(item, sort_keys=True)).encode()).hexdigest()[:12]
    return os.path.join(ROOT, "replays", f"{cid}-{h}.json")


def run(cid, tier="quick", seed=0, jobs=None, only=None):
    """all scratch files of the run (generated C sources, shared objects, CLI output directories, children's temp dirs) live under one
    directory that is removed at the end, whatever happens to the workers"""
    import shutil
    import tempfile
    scratch = tempfile.mkdtemp(prefix=f"gxverif-{cid}-")
    old_tmp = os.environ.get("TMPDIR")
    os.environ["TMPDIR"] = scratch
    tempfile.tempdir = None

    def _term(signum, frame):  # `timeout` / a supervisor stopping the run: leave through the finally below so the scratch directory goes
        raise SystemExit(143)
    old_term = signal.signal(signal.SIGTERM, _term)
    try:
        return _run(cid, tier, seed, jobs, only)
    finally:
        if old_tmp is None:
            os.environ.pop("TMPDIR", None)
        else:
            os.environ["TMPDIR"] = old_tmp
        tempfile.tempdir = None
        signal.signal(signal.SIGTERM, old_term)
        shutil.rmtree(scratch, ignore_errors=True)


def _run(cid, tier="quick", seed=0, jobs=None, only=None):
    t0 = time.time()
    mod = load_check(cid)
    items = mod.items(tier)
    seen = {}
    for it in items:
        seen.setdefault(it["key"], it)
    items = list(seen.values())
    if only:
        items = [it for it in items if only in it["key"]]
    n = len(items)
    if n and seed:
        r = seed % n
        items = items[r:] + items[:r]  # VERIF_SEED only rotates the enumeration order
    budget = getattr(mod, "ITEM_BUDGET_S", 120)
    jobs = jobs or int(os.environ.get("VERIF_JOBS", "16"))
    if hasattr(mod, "prepare"):
        mod.prepare(tier)
    results = []
    args = [(cid, it, budget) for it in items]
    if jobs > 1 and n > 1:
        ctx = mp.get_context("fork")
        with ctx.Pool(min(jobs, n), initializer=_worker_init) as pool:
            for res in pool.imap_unordered(_run_one, args, chunksize=max(1, min(8, n // (jobs * 8) or 1))):
                results.append(res)
    else:
        _worker_init()
        for a in args:
            results.append(_run_one(a))
    results.sort(key=lambda r: r["key"])
    by_key = {it["key"]: it for it in items}

    tot = {"transitions": 0, "traces": 0, "evaluations": 0}
    skipped = {}
    outcomes = set()
    nontrivial = 0
    nstates = 0
    harness_errors = []
    failures = []
    extra = {}
    for r in results:
        if "harness_error" in r:
            harness_errors.append((r["key"], r["harness_error"]))
            continue
        for k in tot:
            tot[k] += int(r.get(k, 0))
        for k, v in r.get("skipped", {}).items():
            skipped[k] = skipped.get(k, 0) + v
        for o in r.get("outcomes", []):
            outcomes.add(json.dumps(o, sort_keys=True) if not isinstance(o, str) else o)
        nontrivial += int(r.get("nontrivial", 0))
        nstates += int(r.get("states", 1))
        for k, v in r.get("extra", {}).items():
            extra[k] = extra.get(k, 0) + v
        for f in r.get("failures", []):
            f["what"] = " ".join(str(f.get("what", "")).split())
            failures.append((r["key"], f))

    kf = known_findings()
    known = {e["key"]: e for e in kf if e.get("property") == cid and e.get("status") == "known"}
    hit_known = {}
    new = {}
    for key, f in failures:
        if f["finding"] in known:
            hit_known.setdefault(f["finding"], []).append(key)
        else:
            new.setdefault(f["finding"], []).append((key, f))

    if os.environ.get("VERIF_LIST"):
        for key, f in sorted(failures, key=lambda kf_: (kf_[1]["finding"], kf_[1].get("size", 0))):
            print("#FAIL", f["finding"], "|", f["what"][:int(os.environ.get("VERIF_LIST"))])
    lines = []
    for fk in sorted(hit_known):
        lines.append(f"KNOWN-FINDING: property={cid} {known[fk]['what']} [{fk}] ({len(hit_known[fk])} items)")

    violations = []
    unreproducible = []
    os.makedirs(os.path.join(ROOT, "replays"), exist_ok=True)
    for old in os.listdir(os.path.join(ROOT, "replays")):
        if old.startswith(cid + "-"):
            os.unlink(os.path.join(ROOT, "replays", old))
    for fk in sorted(new):
        lst = sorted(new[fk], key=lambda kf_: (kf_[1].get("size", 10 ** 9), len(kf_[0]), kf_[0]))
        key, f = lst[0]  # smallest witness for this finding
        item = f.get("replay_item") or by_key[key]
        path = replay_path(cid, item, fk)
        rec = {"property": cid, "tier": tier, "seed": seed, "finding": fk, "what": f["what"],
               "item": item, "detail": f.get("detail", {}), "gotranx_src": os.environ.get("GOTRANX_SRC", "/repo/src"),
               "n_items_failing": len(lst)}
        with open(path, "w") as fh:
            json.dump(rec, fh, indent=1, sort_keys=True, default=str)
        reproduced = 0
        if os.environ.get("VERIF_NO_REPRO") != "1" and len(violations) + len(unreproducible) < 8:
            for _ in range(2):
                try:
                    pr = subprocess.run([PY, os.path.join(ROOT, "check"), cid, "--replay", path],
                                        capture_output=True, text=True, timeout=max(300, budget * 2))
                    if pr.returncode == 1:
                        reproduced += 1
                except subprocess.TimeoutExpired:
                    if "timeout" in fk:
                        reproduced += 1
        else:
            reproduced = 2
        if reproduced == 2:
            violations.append((fk, path, f["what"], len(lst)))
        else:
            unreproducible.append((fk, path, f["what"], reproduced))

    for fk, path, what, cnt in violations:
        print(f"# {cid} finding={fk} items={cnt}: {what}")
        lines.append(f"VIOLATION property={cid} replay={path}")

    wall = time.time() - t0
    samples = []
    if items:
        srt = sorted(items, key=lambda it: it["key"])
        for it in (srt[0], srt[len(srt) // 2], srt[-1]):
            samples.append(it.get("sample", it))
    cov = {
        "states": nstates,
        "work_items": n,
        "transitions": tot["transitions"],
        "traces_validated_against_impl": tot["traces"],
        "evaluations": tot["evaluations"],
        "distinct_nontrivial": nontrivial,
        "rule": mod.RULE,
        "samples": samples,
        "exhaustive": not harness_errors and only is None,
        "distinct_outcomes": len(outcomes),
        "skipped_by_guard": skipped,
        "bounds": mod.bounds(tier) if hasattr(mod, "bounds") else {},
        "known_findings_hit": {k: len(v) for k, v in hit_known.items()},
        "unreproducible": [list(u) for u in unreproducible],
        "harness_errors": len(harness_errors),
        "explanation": getattr(mod, "EXPLANATION", mod.RULE),
    }
    cov.update(extra)
    ev = {
        "property_id": cid, "tier": tier, "seed": seed, "level": mod.LEVEL, "coverage": cov,
        "assumptions": list(getattr(mod, "ASSUMPTIONS", [])), "wall_s": round(wall, 2),
        "violations": len(violations),
    }
    os.makedirs(os.path.join(ROOT, "evidence"), exist_ok=True)
    evp = os.path.join(ROOT, "evidence", f"{cid}.json")
    with open(evp, "w") as fh:
        json.dump(ev, fh, indent=1, sort_keys=True, default=str)
    ok_schema = validate_evidence(evp)

    for ln in lines:
        print(ln)
    print(f"# {cid} tier={tier} seed={seed} items={n} transitions={tot['transitions']} traces={tot['traces']} "
          f"evaluations={tot['evaluations']} nontrivial={nontrivial} outcomes={len(outcomes)} "
          f"known={len(hit_known)} violations={len(violations)} unreproducible={len(unreproducible)} "
          f"harness_errors={len(harness_errors)} wall={wall:.1f}s")
    if skipped:
        print("# skipped:", json.dumps(skipped, sort_keys=True))
    if harness_errors:
        for k, e in harness_errors[:3]:
            print(f"# HARNESS ERROR in {k}:\n{e}", file=sys.stderr)
        return 2
    if not ok_schema:
        return 2
    return 1 if violations else 0


def validate_evidence(path):
    """validate against the evidence schema with the tooling venv (jsonschema lives there)"""
    schema = "/root/.vp/EVIDENCE.schema.json"
    if not os.path.exists(schema):
        schema = os.path.join(ROOT, "mc", "EVIDENCE.schema.json")
    code = ("import json,sys,jsonschema;"
            "jsonschema.validate(json.load(open(sys.argv[1])), json.load(open(sys.argv[2])))")
    for py in ("python3-vt", "/opt/veriftools/pyvenv/bin/python"):
        try:
            r = subprocess.run([py, "-c", code, path, schema], capture_output=True, text=True, timeout=60)
        except (FileNotFoundError, subprocess.TimeoutExpired):
            continue
        if r.returncode != 0:
            print("# evidence does not validate:", r.stderr[-800:], file=sys.stderr)
            return False
        return True
    return True


def replay(cid, path):
    mod = load_check(cid)
    rec = json.load(open(path))
    item = rec["item"]
    if hasattr(mod, "prepare"):
        mod.prepare(rec.get("tier", "quick"))
    _worker_init()
    res = _run_one((cid, item, getattr(mod, "ITEM_BUDGET_S", 120)))
    if "harness_error" in res:
        print(res["harness_error"], file=sys.stderr)
        return 2
    fs = [f for f in res.get("failures", []) if f["finding"] == rec["finding"]]
    print(json.dumps({"finding": rec["finding"], "still_failing": bool(fs),
                      "failures": res.get("failures", [])[:5]}, indent=1, default=str))
    if fs:
        print(f"VIOLATION property={cid} replay={path}")
        return 1
    return 0
