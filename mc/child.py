"""Run a function in a forked child with a hard wall-clock limit (C-level hangs cannot be interrupted by SIGALRM).
Uses os.fork directly: pool workers are daemonic and may not create multiprocessing children."""
from __future__ import annotations

import os
import pickle
import select
import signal
import time


def run(fn, args=(), timeout=20.0):
    r, w = os.pipe()
    pid = os.fork()
    if pid == 0:
        os.close(r)
        signal.alarm(0)
        try:
            out = ("ok", fn(*args))
        except BaseException as ex:  # noqa
            out = ("exc", (type(ex).__name__, str(ex)[:500]))
        try:
            data = pickle.dumps(out)
        except Exception:
            data = pickle.dumps(("exc", ("PickleError", "result not picklable")))
        with os.fdopen(w, "wb") as f:
            f.write(data)
        os._exit(0)
    os.close(w)
    chunks = []
    deadline = time.time() + timeout
    out = None
    with os.fdopen(r, "rb") as f:
        while True:
            left = deadline - time.time()
            if left <= 0:
                break
            rd, _, _ = select.select([f], [], [], left)
            if not rd:
                break
            b = os.read(f.fileno(), 1 << 20)
            if not b:
                try:
                    out = pickle.loads(b"".join(chunks))
                except Exception:
                    out = ("exc", ("ChildDied", "child exited without a result"))
                break
            chunks.append(b)
    if out is None:
        try:
            os.kill(pid, signal.SIGKILL)
        except ProcessLookupError:
            pass
        out = ("hang", timeout)
    try:
        os.waitpid(pid, 0)
    except ChildProcessError:
        pass
    return out
