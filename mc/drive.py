"""Drivers for the real gotranx code (imported from $GOTRANX_SRC, default /repo/src)."""
from __future__ import annotations

import atexit
import ctypes
import logging
import os
import shutil
import subprocess
import sys
import tempfile
import types

SRC = os.environ.get("GOTRANX_SRC", "/repo/src")
_state = {}


def gx():
    """import gotranx from the working tree (never from a stale install)"""
    if "gx" in _state:
        return _state["gx"]
    if SRC not in sys.path:
        sys.path.insert(0, SRC)
    # a stub formatter module so that the C formatter seam is importable without clang-format on PATH
    if "clang_format_docs" not in sys.modules:
        m = types.ModuleType("clang_format_docs")
        m.clang_format_str = lambda code: "/*clang-format-stub*/\n" + code
        sys.modules["clang_format_docs"] = m
    import warnings

    warnings.filterwarnings("ignore", category=DeprecationWarning)
    import gotranx
    import structlog

    assert os.path.realpath(gotranx.__file__).startswith(os.path.realpath(SRC)), gotranx.__file__
    structlog.configure(wrapper_class=structlog.make_filtering_bound_logger(logging.CRITICAL))
    _state["gx"] = gotranx
    memo_parser(True)
    return gotranx


def memo_parser(on=True):
    """Building the lark parser is ~95 % of ode_from_string; memoise the object."""
    g = _state["gx"]
    import gotranx.load as L
    import gotranx.parser as P

    if on:
        cache = {}

        def Parser(*a, **k):
            key = (a, tuple(sorted((kk, type(v).__name__ if kk == "transformer" else v) for kk, v in k.items())))
            if key not in cache:
                cache[key] = P.Parser(*a, **k)
            return cache[key]

        L.Parser = Parser
    else:
        L.Parser = P.Parser


def load(text, name="ode"):
    return gx().load.ode_from_string(text, name=name)


def schemes_enum(names):
    g = gx()
    return [g.schemes.Scheme(n) for n in names] if names is not None else None


def py_code(ode, scheme=None, remove_unused=False, backend="numpy", delta=1e-8, stiff_states=None,
            missing_values=None, format="none", shape="dynamic"):
    g = gx()
    from gotranx.cli import gotran2py
    from gotranx.codegen.python import Format
    from gotranx.codegen.base import Shape

    return gotran2py.get_code(
        ode, scheme=schemes_enum(scheme), format=Format(format), remove_unused=remove_unused,
        missing_values=missing_values, delta=delta, stiff_states=stiff_states,
        backend=gotran2py.Backend(backend), shape=Shape(shape),
    )


def c_code(ode, scheme=None, remove_unused=False, delta=1e-8, stiff_states=None, missing_values=None, format="none"):
    g = gx()
    from gotranx.cli import gotran2c
    from gotranx.codegen.c import Format

    return gotran2c.get_code(
        ode, scheme=schemes_enum(scheme), format=Format(format), remove_unused=remove_unused,
        missing_values=missing_values, delta=delta, stiff_states=stiff_states,
    )


def exec_py(code, name="generated"):
    import numpy

    ns = {"__name__": name}
    exec(compile(code, f"<{name}>", "exec"), ns)
    return ns


# ---------------------------------------------------------------------------
# C
_tmp = {}


def tmpdir():
    pid = os.getpid()
    if _tmp.get("pid") != pid:
        d = tempfile.mkdtemp(prefix="gxverif-")
        _tmp["pid"] = pid
        _tmp["dir"] = d
        _tmp["n"] = 0
        atexit.register(shutil.rmtree, d, True)
    return _tmp["dir"]


class CompileError(Exception):
    pass


def compile_c(code, extra_flags=()):
    """gcc in its default GNU C mode -> shared object -> ctypes handle"""
    d = tmpdir()
    _tmp["n"] += 1
    base = os.path.join(d, f"m{_tmp['n']}")
    with open(base + ".c", "w") as f:
        f.write(code)
    cmd = ["gcc", "-shared", "-fPIC", 
           *extra_flags, "-o", base + ".so", base + ".c", "-lm"]
    r = subprocess.run(cmd, capture_output=True, text=True)
    if r.returncode != 0:
        os.unlink(base + ".c")
        raise CompileError(r.stderr[-2000:])
    lib = ctypes.CDLL(base + ".so")
    os.unlink(base + ".c")
    os.unlink(base + ".so")
    return lib


DP = ctypes.POINTER(ctypes.c_double)


def darr(xs):
    return (ctypes.c_double * max(len(xs), 1))(*xs)


class CModule:
    """ctypes view of one generated C translation unit (default argument orders)."""

    def __init__(self, code):
        self.lib = compile_c(code)
        L = self.lib
        self.num_states = ctypes.c_int.in_dll(L, "NUM_STATES").value
        self.num_params = ctypes.c_int.in_dll(L, "NUM_PARAMS").value
        self.num_monitored = ctypes.c_int.in_dll(L, "NUM_MONITORED").value
        for f in ("state_index", "parameter_index", "monitor_index"):
            fn = getattr(L, f)
            fn.argtypes = [ctypes.c_char_p]
            fn.restype = ctypes.c_int

    def index(self, kind, name):
        return getattr(self.lib, kind + "_index")(name.encode())

    def init(self, kind, n):
        buf = darr([float("nan")] * n)
        fn = getattr(self.lib, f"init_{kind}_values")
        fn.argtypes = [DP]
        fn.restype = None
        fn(buf)
        return list(buf)[:n]

    def rhs_like(self, fname, t, states, params, nout):
        fn = getattr(self.lib, fname)
        fn.argtypes = [ctypes.c_double, DP, DP, DP]
        fn.restype = None
        s, p = darr(states), darr(params)
        out = darr([float("nan")] * nout)
        fn(t, s, p, out)
        return list(out)[:nout], list(s)[: len(states)], list(p)[: len(params)]

    def scheme(self, fname, states, t, dt, params):
        fn = getattr(self.lib, fname)
        fn.argtypes = [DP, ctypes.c_double, ctypes.c_double, DP, DP]
        fn.restype = None
        s, p = darr(states), darr(params)
        out = darr([float("nan")] * len(states))
        fn(s, t, dt, p, out)
        return list(out)[: len(states)], list(s)[: len(states)], list(p)[: len(params)]
