"""Controlled set-iteration scheduler.

The only nondeterminism inside gotranx is the iteration order of its hash sets.  The harness owns it by rebinding the names
`set` and `frozenset` in the globals of the gotranx modules that build sets to subclasses whose __iter__ asks the scheduler
for an order.  Sets derived with |, .union(), comprehensions or set displays are plain builtins and escape the scheduler;
the real-hash-seed exploration (checks/c09.py, part 2) covers those.
"""
from __future__ import annotations

import builtins
import itertools

MODULES = ("gotranx.atoms", "gotranx.transformer", "gotranx.ode", "gotranx.ode_component", "gotranx.schemes", "gotranx.codegen.base", "gotranx.myokit")


def keyof(el):
    n = getattr(el, "name", None)
    if isinstance(n, str):
        return (n, type(el).__name__)
    sym = getattr(el, "symbol", None)
    if sym is not None:
        return (str(sym), str(getattr(el, "value", "")))
    return (str(el), type(el).__name__)


class Scheduler:
    """mode 'global': every set iterates in the order given by `rank` (name -> position), ties / unknown names sorted.
    mode 'object': default sorted order; the k-th *iterated* set object (counted in order of first iteration, only sets with >= 2
    elements) listed in `deviations` {k: permutation index} iterates in that permutation of its sorted order."""

    def __init__(self, rank=None, deviations=None):
        self.rank = rank
        self.deviations = deviations or {}
        self.objects = {}  # id -> index
        self.sizes = []  # size of the k-th iterated object
        self.alive = []  # keep iterated objects alive so that ids are not reused
        self.choice_points = 0
        self.diverged = False

    def order(self, obj, elements):
        els = sorted(elements, key=keyof)
        if len(els) < 2:
            return els
        self.choice_points += 1
        if self.rank is not None:
            big = len(self.rank) + 1
            return sorted(els, key=lambda e: (self.rank.get(keyof(e)[0], big), keyof(e)))
        k = self.objects.get(id(obj))
        if k is None:
            k = len(self.objects)
            self.objects[id(obj)] = k
            self.sizes.append(len(els))
            self.alive.append(obj)
        d = self.deviations.get(k)
        if d is None:
            return els
        try:
            perm = nth_permutation(len(els), d)
        except IndexError:
            # the k-th iterated object is smaller than in the default run (the run diverged from the prefix): no deviation to apply
            self.diverged = True
            return els
        return [els[i] for i in perm]


def nth_permutation(n, idx):
    for i, p in enumerate(itertools.permutations(range(n))):
        if i == idx:
            return p
    raise IndexError(idx)


_current = [None]


class CSet(builtins.set):
    def __iter__(self):
        s = _current[0]
        if s is None:
            return builtins.set.__iter__(self)
        return iter(s.order(self, list(builtins.set.__iter__(self))))


class CFrozenSet(builtins.frozenset):
    def __iter__(self):
        s = _current[0]
        if s is None:
            return builtins.frozenset.__iter__(self)
        return iter(s.order(self, list(builtins.frozenset.__iter__(self))))


def install():
    import importlib
    for m in MODULES:
        mod = importlib.import_module(m)
        mod.__dict__["set"] = CSet
        mod.__dict__["frozenset"] = CFrozenSet


def uninstall():
    import importlib
    for m in MODULES:
        mod = importlib.import_module(m)
        mod.__dict__.pop("set", None)
        mod.__dict__.pop("frozenset", None)


class controlled:
    def __init__(self, sched):
        self.sched = sched

    def __enter__(self):
        _current[0] = self.sched
        return self.sched

    def __exit__(self, *a):
        _current[0] = None
