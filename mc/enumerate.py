"""Deterministic, exhaustive enumerators (no sampling anywhere)."""
from __future__ import annotations

import itertools
from functools import lru_cache

from . import lang as L

V8 = (-2.0, -1.0, -0.5, 0.0, 0.5, 1.0, 2.0, 3.0)
V5 = (-2.0, -0.5, 0.0, 1.0, 3.0)
V4 = (-1.0, 0.0, 0.5, 2.0)

X, Y, P, Q, T = L.var("x"), L.var("y"), L.var("p"), L.var("q"), L.var("t")
N2, N3, N05 = L.num("2"), L.num("3"), L.num("0.5")
BINOPS = ("+", "-", "*", "/", "**")


def grid(names, values=V8):
    """full Cartesian product, as list of dicts"""
    return [dict(zip(names, pt)) for pt in itertools.product(values, repeat=len(names))]


# ---------------------------------------------------------------------------
# E1: all arithmetic nestings with exactly k operator nodes
def e1_exact(k, leaves):
    leaves = tuple(leaves)

    @lru_cache(maxsize=None)
    def gen(k):
        if k == 0:
            return leaves
        out = []
        for a in gen(k - 1):
            out.append(("neg", a))
            out.append(("pos", a))
        for i in range(k):
            for op in BINOPS:
                for a in gen(i):
                    for b in gen(k - 1 - i):
                        out.append(("bin", op, a, b))
        return tuple(out)

    return gen(k)


def e1(kmax, leaves):
    out = []
    for k in range(kmax + 1):
        out.extend(e1_exact(k, leaves))
    return out


LEAVES_Q = (X, P, N2, N3, N05)
LEAVES_T = (X, P, N2, N05)


# ---------------------------------------------------------------------------
# E2: functions, logic, conditionals, literals
def e2_functions():
    out = []
    args = (X, P, N05, L.bin_("+", X, P), L.neg(X))
    for f in L.FUNCS1:
        for a in args:
            out.append(L.call(f, a))
    for f in L.FUNCS1:
        for g in L.FUNCS1:
            for a in (X, N05, L.bin_("*", X, P)):
                out.append(L.call(f, L.call(g, a)))
    margs = (X, P, N2, N3, N05, L.neg(X), L.neg(P), L.neg(N3), L.bin_("+", X, P), T)
    for a in margs:
        for b in margs:
            out.append(L.call("Mod", a, b))
    for f in L.FUNCS1:
        out.append(L.call(f, L.call("Mod", X, P)))
        out.append(L.call("Mod", L.call(f, X), P))
        out.append(L.call("Mod", P, L.call(f, X)))
    # functions inside arithmetic / powers
    for f in L.FUNCS1:
        fx = L.call(f, X)
        out += [L.bin_("**", fx, N2), L.bin_("**", N2, fx), L.neg(fx), L.bin_("/", P, fx), L.bin_("-", P, fx),
                L.bin_("**", L.neg(fx), N3), L.bin_("*", fx, fx)]
    return out


def base_rels(pairs=None):
    pairs = pairs or ((X, P), (X, L.num("0")), (P, L.num("1")), (L.bin_("+", X, P), T),
                      # float-typed literals on either side (printers may treat Float and Integer differently)
                      (X, L.num("0.5")), (L.num("1.0"), P), (X, L.num("0.0")), (T, L.num("-0.5")), (L.bin_("*", X, L.num("2.0")), L.num("1e0")),
                      # negative literals on either side (kept by the loader as unevaluated products), grid values so that equality is hit
                      (X, L.num("-0.5")), (L.num("-0.5"), X), (X, L.num("-1")), (L.num("-2.0"), P), (X, L.neg(P)))
    return [L.rel(op, a, b) for op in L.RELS for a, b in pairs]


COND_B = (L.rel("Lt", X, P), L.rel("Ge", X, L.num("0")), L.rel("Eq", X, P), ("not", L.rel("Gt", P, L.num("1"))))
COND_B6 = COND_B + (L.rel("Le", T, L.num("0.5")), L.rel("Eq", T, X))


def e2_conditions(max_operands=4):
    cs = []
    rels = base_rels()
    cs += rels
    cs += [("not", r) for r in rels]
    cs += [("not", ("not", r)) for r in rels[:5]]
    for k in ("and", "or"):
        for a in COND_B6:
            for b in COND_B6:
                cs.append((k, a, b))
        for n in range(3, max_operands + 1):
            for tup in itertools.product(COND_B, repeat=n):
                cs.append((k,) + tup)
    # depth 2
    for k1, k2 in (("and", "or"), ("or", "and")):
        for a, b, c in itertools.product(COND_B, repeat=3):
            cs.append((k1, (k2, a, b), c))
            cs.append((k1, c, (k2, a, b)))
            cs.append(("not", (k1, a, ("not", b))))
    for k in ("and", "or"):
        for a, b in itertools.product(COND_B, repeat=2):
            cs.append(("not", (k, a, b)))
    return cs


def e2_conditionals(max_operands=4):
    out = []
    A, B = L.bin_("+", X, N2), L.bin_("*", P, N3)
    for c in e2_conditions(max_operands):
        out.append(L.cond(c, A, B))
    # every base relation (and its negation) once more with the conditional nested inside a product and a sum: the printers treat a
    # Conditional that is a whole right-hand side differently from one inside a larger expression
    for r in base_rels():
        out.append(L.bin_("*", N2, L.cond(r, A, B)))
        out.append(L.bin_("+", L.cond(("not", r), A, B), L.num("1")))
    # nesting in each position, depth <= 2
    c1, c2, c3 = COND_B[0], COND_B[1], COND_B[2]
    vals = (X, P, L.num("7"), L.bin_("-", X, P))
    for ca, cb in itertools.product(COND_B6, repeat=2):
        out.append(L.cond(ca, L.cond(cb, vals[0], vals[1]), vals[2]))
        out.append(L.cond(ca, vals[2], L.cond(cb, vals[0], vals[1])))
        out.append(L.cond(ca, L.cond(cb, vals[0], vals[1]), L.cond(cb, vals[2], vals[3])))
    for ca, cb, cc in itertools.product(COND_B, repeat=3):
        out.append(L.cond(ca, L.cond(cb, L.cond(cc, X, P), N2), N3))
        out.append(L.cond(ca, N3, L.cond(cb, N2, L.cond(cc, X, P))))
    # conditionals inside arithmetic / functions / powers / conditions
    k = L.cond(c1, X, P)
    k2 = L.cond(c2, N2, N05)
    out += [L.bin_("+", L.bin_("*", N2, k), L.num("1")), L.bin_("**", k, N2), L.bin_("**", N2, k), L.call("exp", k),
            L.neg(k), L.bin_("/", k, k2), L.bin_("-", k, k2), L.bin_("*", k, k2), L.call("Mod", k, k2),
            L.cond(L.rel("Gt", k, k2), k, k2), L.cond(L.rel("Eq", k, X), N2, N3), L.call("abs", L.bin_("-", k, k2)),
            L.cond(c3, L.bin_("/", L.num("1"), X), L.num("0")),  # guarded division
            L.cond(L.rel("Gt", X, L.num("0")), L.call("log", X), L.num("0")),
            L.cond(L.rel("Ge", X, L.num("0")), L.call("sqrt", X), L.call("sqrt", L.neg(X))),
            ]
    # 0/1 indicators (and other two-valued conditionals) in every arithmetic position: sums and products of two indicators, indicator
    # first / last in a longer sum, under unary minus, as argument, base and exponent
    one, zero = L.num("1"), L.num("0")
    inds = [L.cond(c, one, zero) for c in COND_B6] + [L.cond(COND_B6[0], zero, one), L.cond(COND_B6[1], L.num("1.0"), L.num("0.0")), L.cond(COND_B6[2], N2, zero)]
    for i, a in enumerate(inds):
        for b in inds:
            out += [L.bin_("+", a, b), L.bin_("*", a, b), L.bin_("-", a, b)]
        b = inds[(i + 1) % len(inds)]
        out += [L.bin_("+", L.bin_("+", a, b), X), L.bin_("+", X, L.bin_("+", a, b)), L.bin_("+", L.bin_("+", a, X), b), L.neg(a), L.bin_("/", a, N2), L.bin_("/", N2, L.bin_("+", a, one)),
                L.call("exp", a), L.call("sqrt", a), L.bin_("**", a, N2), L.bin_("**", N2, a), L.bin_("*", P, a), L.bin_("-", one, a), L.call("abs", L.neg(a)),
                L.bin_("+", L.bin_("+", a, b), inds[(i + 2) % len(inds)])]
    # constant conditions (folded at build time by sympy)
    for op in L.RELS:
        out.append(L.cond(L.rel(op, L.num("1"), L.num("2")), X, P))
        out.append(L.cond(L.rel(op, L.num("2"), L.num("2")), X, P))
    # heaviside / min / max from the docs
    out.append(L.cond(L.rel("Gt", X, L.num("0")), L.num("1"), L.cond(L.rel("Eq", X, L.num("0.0")), L.num("0.5"), L.num("0.0"))))
    out.append(L.cond(L.rel("Le", X, P), X, P))
    out.append(L.cond(L.rel("Ge", X, P), X, P))
    return out


def e2_ccond():
    out = []
    for op in ("Lt", "Gt", "Le", "Ge"):
        for sg in (L.num("1"), L.num("0.5"), L.num("2.0"), P):
            for a, b in ((X, P), (X, L.num("0")), (L.bin_("*", N2, X), T)):
                out.append(("ccond", op, a, b, L.num("1"), L.num("0"), sg))
                out.append(("ccond", op, a, b, L.bin_("+", X, N2), L.bin_("*", P, N3), sg))
    return out


LITERALS = ("0", "1", "7", "12", "1.", "1.0", ".5", "0.5", "2.50", "1e3", "1E3", "1e-2", "1E-2", "1.5e+2", "1.5E+2",
            "2e0", "0.1", "0.30000000000000004", "3.141592653589793", "123456789012345678", "1e22", "1e-22",
            "4.9e-324", "2.2250738585072014e-308", "1e100", "1.7976931348623157e+308"[:6] + "e+30", "1e15", "9007199254740993",
            "0.000001", "1000000.0", "00012", "1e+2", "5E-1")


def e2_literals():
    out = []
    for s in LITERALS:
        n = L.num(s)
        out += [n, L.bin_("*", n, X), L.bin_("+", X, n), L.neg(n), L.bin_("/", X, n) if float(s) != 0 else n,
                L.bin_("-", n, P)]
    return out


def e2_intquot():
    i = L.num
    out = [
        L.bin_("/", i("1"), i("4")), L.bin_("/", i("7"), i("2")), L.bin_("*", L.bin_("/", i("7"), i("2")), X),
        L.bin_("/", L.bin_("+", i("1"), i("2")), i("4")), L.bin_("**", X, L.bin_("/", i("1"), i("2"))),
        L.bin_("**", i("2"), L.neg(i("1"))), L.bin_("**", i("2"), L.bin_("/", i("1"), i("2"))),
        L.bin_("*", X, L.bin_("/", i("1"), i("4"))), L.bin_("/", L.bin_("*", i("2"), i("3")), i("3")),
        L.bin_("+", L.bin_("/", i("1"), i("3")), L.bin_("/", i("2"), i("3"))),
        L.bin_("/", X, L.bin_("/", i("3"), i("2"))), L.bin_("/", L.neg(i("7")), i("2")),
        L.cond(L.rel("Gt", X, i("0")), L.bin_("/", i("1"), i("2")), L.bin_("/", i("3"), i("4"))),
        L.call("exp", L.bin_("/", i("1"), i("2"))), L.call("sqrt", L.bin_("/", i("1"), i("4"))),
        L.bin_("**", L.bin_("/", i("1"), i("2")), i("2")), L.bin_("**", X, L.bin_("/", i("3"), i("2"))),
        L.bin_("**", X, L.neg(L.bin_("/", i("1"), i("2")))), L.bin_("/", i("1"), L.bin_("*", i("2"), X)),
        L.bin_("-", L.bin_("/", i("1"), i("2")), L.bin_("/", i("1"), i("3"))), L.call("Mod", i("7"), i("3")),
        L.call("Mod", L.neg(i("7")), i("3")), L.call("floor", L.bin_("/", i("7"), i("2"))),
        L.call("floor", L.bin_("/", L.neg(i("7")), i("2"))), L.bin_("/", i("2"), i("4")),
        L.bin_("*", L.bin_("/", i("1"), i("2")), L.bin_("/", i("1"), i("2"))),
        L.bin_("/", i("1"), L.num("4.0")), L.bin_("/", L.num("1.0"), i("4")),
        L.bin_("**", X, i("2")), L.bin_("**", X, i("3")), L.bin_("**", X, L.neg(i("2"))), L.bin_("**", i("10"), i("2")),
        L.bin_("**", i("2"), i("10")), L.bin_("**", L.neg(i("2")), i("3")), L.bin_("**", i("2"), L.bin_("**", i("3"), i("2"))),
        L.bin_("**", L.bin_("**", i("2"), i("3")), i("2")),
    ]
    return out


def e2_misc():
    return [("pi",), L.bin_("*", N2, ("pi",)), L.call("cos", L.bin_("*", N2, ("pi",))), L.call("sin", ("pi",)),
            T, L.var("time"), L.bin_("+", T, L.var("time")), L.bin_("*", T, X), L.call("sin", L.bin_("*", ("pi",), T)),
            L.bin_("**", ("pi",), N2), L.bin_("/", X, ("pi",)), L.call("abs", L.bin_("-", L.num("1.0"), L.call("exp", L.num("4"))))]


def e2_all(tier="quick"):
    mo = 4
    out = e2_functions() + e2_conditionals(mo) + e2_ccond() + e2_literals() + e2_intquot() + e2_misc()
    seen, res = set(), []
    for n in out:
        s = L.render(n)
        if s not in seen:
            seen.add(s)
            res.append(n)
    return res


def chunks(lst, n):
    return [lst[i:i + n] for i in range(0, len(lst), n)]
