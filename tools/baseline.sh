#!/bin/bash
# Run the repository's pinned test suite (guard OFF: no GOTRANX_VERIF in env) and compare with BASELINE.json's stable_pass list.
# usage: tools/baseline.sh [repo-dir]
REPO=${1:-/repo}
OUT=$(mktemp -d)
unset GOTRANX_VERIF
(cd "$REPO" && PYTHONPATH="$REPO/src" /venv/bin/python -m pytest -ra -q -p no:cacheprovider --timeout=900 --continue-on-collection-errors --junitxml="$OUT/r.xml" >"$OUT/log" 2>&1)
/venv/bin/python - "$OUT/r.xml" <<'P'
import json, sys, xml.etree.ElementTree as ET
base = json.load(open('/root/.vp/BASELINE.json'))
want = set(base['stable_pass']) if isinstance(base['stable_pass'], list) else None
passed = set()
for tc in ET.parse(sys.argv[1]).getroot().iter('testcase'):
    if not any(ch.tag in ('failure', 'error', 'skipped') for ch in tc):
        passed.add(f"{tc.get('classname')}::{tc.get('name')}")
if want is None:
    print('passed', len(passed)); sys.exit(0)
missing = sorted(want - passed)
print(f"baseline stable_pass={len(want)} passed_now={len(passed)} missing={len(missing)}")
for m in missing[:20]:
    print('  MISSING', m)
sys.exit(1 if missing else 0)
P
rc=$?
tail -3 "$OUT/log"
rm -rf "$OUT"
exit $rc
