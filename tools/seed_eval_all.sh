#!/bin/bash
# evaluates every /tmp/seed-CXX/seed produced by the sub-agents with the checks of the same property
ROOT=$(dirname $(dirname $(realpath "$0")))
for id in ${@:-C01 C02 C03 C04 C05 C06 C07 C08 C09 C10 C11 C12 C13 C14 C15 C16 C17 C18 C19 C20}; do
  if [ -f /tmp/seed-$id/seed/patch.diff ]; then
    echo "=== $id"
    $ROOT/tools/seed_eval.sh /tmp/seed-$id/seed agent1-$id $id $id 2>&1 | grep -v "^WARNING"
  fi
done
