#!/bin/bash
# usage: tools/seed_eval_all.sh <dir-prefix> <name-prefix> [ids...]   e.g. /tmp/seed2- agent2-
ROOT=$(dirname $(dirname $(realpath "$0")))
PFX=$1; NPFX=$2; shift 2
for id in ${@:-C01 C02 C03 C04 C05 C06 C07 C08 C09 C10 C11 C12 C13 C14 C15 C16 C17 C18 C19 C20}; do
  if [ -f $PFX$id/seed/patch.diff ]; then
    echo "=== $id"
    case $id in C11) chk="C11 C15";; C03) chk="C03 C13";; *) chk=$id;; esac
    $ROOT/tools/seed_eval.sh $PFX$id/seed $NPFX$id $id $chk 2>&1 | grep -v "^WARNING"
  fi
done
