#!/bin/bash
# usage: tools/run_all.sh [quick|thorough] [ids...]   - runs the checks one after another, prints exit status and wall time
TIER=${1:-quick}; shift
IDS=${@:-C01 C02 C03 C04 C05 C06 C07 C08 C09 C10 C11 C12 C13 C14 C15 C16 C17 C18 C19 C20}
cd $(dirname $(dirname $(realpath "$0")))
for id in $IDS; do
  s=$(date +%s)
  ./check $id --tier $TIER > /tmp/runall-$TIER-$id.log 2>&1
  rc=$?
  e=$(date +%s)
  echo "$id exit=$rc wall=$((e-s))s $(grep -c '^KNOWN-FINDING' /tmp/runall-$TIER-$id.log) known $(grep -c '^VIOLATION' /tmp/runall-$TIER-$id.log) violations"
done
