#!/bin/bash
# usage: tools/seed_eval.sh <seed-dir-with patch.diff+demo.py> <name> <property> [check ids...]
# Confirms a seeded change in a scratch worktree: (1) repo baseline still passes, (2) demo fails with / passes without the change,
# (3) runs the given checks against the changed tree (GOTRANX_SRC).  Writes $ROOT/seeded/<name>/{patch.diff,demo.py,NOTES.md,meta.json}.
ROOT=$(dirname $(dirname $(realpath "$0")))
SRC=$(realpath "$1"); NAME=$2; PROP=$3; shift 3
CHECKS=${@:-$PROP}
WT=$(mktemp -d /tmp/gxwt-XXXXXX)
git -C /repo worktree add -q --detach "$WT" HEAD || exit 3
trap 'git -C /repo worktree remove --force "$WT" 2>/dev/null; rm -rf "$WT"' EXIT
PYTHONPATH="$WT/src" /venv/bin/python "$SRC/demo.py" >/tmp/seed-demo-clean.log 2>&1; demo_clean=$?
git -C "$WT" apply "$SRC/patch.diff" || { echo "PATCH DOES NOT APPLY to current HEAD"; exit 3; }
PYTHONPATH="$WT/src" /venv/bin/python "$SRC/demo.py" >/tmp/seed-demo-patched.log 2>&1; demo_patched=$?
echo "demo: clean exit=$demo_clean patched exit=$demo_patched"
base=$($ROOT/tools/baseline.sh "$WT" | head -1)
echo "baseline: $base"
declare -A RES
for c in $CHECKS; do
  out=$(cd $ROOT && GOTRANX_SRC="$WT/src" VERIF_NO_REPRO=1 ./check $c 2>&1)
  rc=$?
  nviol=$(echo "$out" | grep -c '^VIOLATION')
  first=$(echo "$out" | grep '^# '$c' finding' | head -2 | cut -c1-300 | tr '\n' ' ' | tr '"' "'" | tr -d '\000-\037' | tr '\\' '/')
  echo "check $c: exit=$rc violations=$nviol :: $first"
  RES[$c]="$rc|$nviol|$first"
done
mkdir -p $ROOT/seeded/$NAME
cp "$SRC/patch.diff" "$SRC/demo.py" $ROOT/seeded/$NAME/
[ -f "$SRC/NOTES.md" ] && cp "$SRC/NOTES.md" $ROOT/seeded/$NAME/
{
 echo "{"
 echo " \"property\": \"$PROP\","
 echo " \"name\": \"$NAME\","
 echo " \"repo_head\": \"$(git -C /repo log -1 --format=%h)\","
 echo " \"demo_exit_clean\": $demo_clean, \"demo_exit_patched\": $demo_patched,"
 echo " \"baseline\": \"$base\","
 echo " \"ran\": \"tools/seed_eval.sh: scratch worktree of /repo HEAD + git apply patch.diff; tools/baseline.sh on it; demo.py with PYTHONPATH=<worktree>/src; ./check <ID> with GOTRANX_SRC=<worktree>/src\","
 echo " \"checks\": {"
 n=0; for c in $CHECKS; do IFS='|' read rc nv first <<< "${RES[$c]}"; [ $n -gt 0 ] && echo ","; echo -n "  \"$c\": {\"exit\": $rc, \"violations\": $nv, \"first\": \"$first\"}"; n=$((n+1)); done; echo
 echo " }"
 echo "}"
} > $ROOT/seeded/$NAME/meta.json
/venv/bin/python -c "import json; json.load(open('$ROOT/seeded/$NAME/meta.json'))" || echo "meta.json invalid"
