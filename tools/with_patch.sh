#!/bin/bash
# usage: tools/with_patch.sh <patch.diff> [--tests] -- <command ...>
# Applies the patch to a scratch worktree of /repo (outside /repo and /verif), runs the command with GOTRANX_SRC pointing
# at it (the checks import gotranx from there), optionally runs the repository's baseline tests on it, removes the worktree.
PATCH=$(realpath "$1"); shift
TESTS=0
if [ "$1" == "--tests" ]; then TESTS=1; shift; fi
[ "$1" == "--" ] && shift
WT=$(mktemp -d /tmp/gxwt-XXXXXX)
git -C /repo worktree add -q --detach "$WT" HEAD || exit 3
trap 'git -C /repo worktree remove --force "$WT" 2>/dev/null; rm -rf "$WT"' EXIT
git -C "$WT" apply "$PATCH" || { echo "patch does not apply"; exit 3; }
rc=0
if [ $TESTS == 1 ]; then
  /verif/tools/baseline.sh "$WT" | head -5
fi
if [ $# -gt 0 ]; then
  GOTRANX_SRC="$WT/src" "$@"; rc=$?
fi
exit $rc
