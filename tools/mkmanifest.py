#!/venv/bin/python
"""Regenerate MANIFEST.json from the check modules (single source of truth: checks/cNN.py + tools/manifest_meta.json)."""
import importlib, json, os, sys
ROOT = os.path.dirname(os.path.dirname(os.path.abspath(__file__)))
sys.path.insert(0, ROOT)
meta = json.load(open(os.path.join(ROOT, "tools", "manifest_meta.json")))
props = [json.loads(l)["id"] for l in open(os.path.join(ROOT, "properties.jsonl"))]
checks, na = [], []
for pid in props:
    path = os.path.join(ROOT, "checks", pid.lower() + ".py")
    m = meta.get(pid, {})
    if not os.path.exists(path) or m.get("not_applicable"):
        na.append({"property_id": pid, "reason": m.get("not_applicable", "check not built yet (work in progress; see DESIGN.md section 2)")})
        continue
    mod = importlib.import_module("checks." + pid.lower())
    checks.append({
        "property_id": pid,
        "quick_cmd": f"./check {pid} --tier quick",
        "thorough_cmd": f"./check {pid} --tier thorough",
        "evidence_file": f"/verif/evidence/{pid}.json",
        "replay_cmd_template": f"./check {pid} --replay {{path}}",
        "engine": "mc-explore",
        "level_claimed": {"category": mod.LEVEL, "text": m.get("text", mod.RULE), "design_ref": f"DESIGN.md section 2, {pid}"},
        "level_note": m.get("note", "; ".join(getattr(mod, "ASSUMPTIONS", []))),
        "technique": m.get("technique", "bounded exhaustive enumeration of programs/configurations run on the real implementation against a reference model (stateless explicit-state exploration)"),
    })
man = {
    "version": 1,
    "setup_cmd": "true",
    "hooks": {"guard": "GOTRANX_VERIF", "enable": "no source hooks are needed: the harness imports gotranx from /repo/src (GOTRANX_SRC) and patches module globals from outside", "baseline_off_cmd": "/verif/tools/baseline.sh", "source_commits": [], "add_only": True},
    "engines": [{"name": "mc-explore", "path": "/verif/mc", "serves_properties": [c["property_id"] for c in checks],
                 "kind_free_text": "hand-written bounded-exhaustive explorer (work-list over canonical items, 16 forked workers) driving the real gotranx code; reference model of the language in mc/lang.py"}],
    "checks": checks,
    "not_applicable": na,
    "notes": "All checks run with /venv/bin/python against /repo/src as it is in the working tree. known_findings.json lists genuine defects (known/fixed).",
}
json.dump(man, open(os.path.join(ROOT, "MANIFEST.json"), "w"), indent=1)
print("checks:", [c["property_id"] for c in checks], "n/a:", len(na))
