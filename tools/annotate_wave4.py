#!/venv/bin/python
"""one-off: add origin / change / needs / first_evaluation / caught_by to seeded/agent4-*/meta.json and print the DESIGN table rows"""
import json
import os
import sys

ROOT = os.path.dirname(os.path.dirname(os.path.abspath(__file__)))
ORIGIN = ("written by an independent sub-agent (wave 4) that saw only the property text, its own scratch worktree of /repo, one-line "
          "descriptions of the three earlier changes for the same property and the list of documented known weaknesses")
W = {
 "C01": ("same_definition lost its Assignment branch for the python path: two differing definitions of one name are accepted and one of them silently wins",
         "a name assigned twice with different formulas",
         "missed by C01 (its family only has well-formed models), caught by the sibling checks C08 and C10", "C08, C10"),
 "C02": ("the C `*_index` lookup functions compare with strncmp over the length of the queried name (prefix match)",
         "two names where one is a prefix of the other (k, k2)", "caught", "C02"),
 "C03": ("JaxPrinter prints x**2 as x*x without parenthesising the base", "backend=jax + a square whose base is a sum / quotient / negative literal",
         "caught", "C03"),
 "C04": ("the JAX template orders the `_values_i` temporaries by string sort", "backend=jax + a function with 11 or more outputs (`_values_10` sorts before `_values_2`)",
         "missed by C04 (largest model had 6 states), caught by the sibling C03 only after the twelve-state model was added", "C03, C04 (twelve-state model)"),
 "C05": ("`_scheme_arguments` ignores the requested argument order for scheme functions", "a non-default `order=` + a scheme",
         "missed: the order dimension was only exercised on rhs / monitor_values; C04 now calls every scheme under every order", "C04"),
 "C06": ("CodeGenerator.scheme memoised per instance, keyed by the scheme name only (keyword values ignored)",
         "two scheme() calls on one CodeGenerator with different delta", "missed: every generation used a fresh CodeGenerator; an api-reuse item was added", "C06 (api-reuse)"),
 "C07": ("the hybrid scheme skips the |g| > delta guard when delta is falsy", "delta == 0 and g == 0 on a stiff state",
         "missed: delta = 0 was in C06's alphabet but not in C07's", "C07"),
 "C08": ("Expression.resolve cached by expression tree; the cached path skips the MissingSymbol check", "an undefined symbol in an expression whose tree was resolved earlier in the process (definition removed from a previously loaded model)",
         "missed: faults were applied to fresh processes only and no fault removed a definition; `definition-removed` faults and base-first histories were added", "C08"),
 "C09": ("lru_cache in resolve_expressions keyed by the Assignment", "a second model in the same process whose assignment compares equal but resolves differently",
         "caught only by accident (one history happened to contain such a pair); A-variant histories were added to make it systematic", "C09"),
 "C10": ("sort keys made case-insensitive (atoms and component names)", "names that differ only by case (V / v)",
         "missed by C10, caught by the sibling C09; `case-twins` models were added to C10 and the degenerate family", "C10, C09"),
 "C11": ("the .ode printer drops a Piecewise branch whose value equals the fallback", "a multi-branch Conditional with a middle branch equal to the final value",
         "missed: nested conditionals in the save family never repeated a value; packs with repeated branch values were added", "C11 (via C15 family too)"),
 "C12": ("`_missing_variables_assignments` filtered under remove_unused, shifting the missing-variable indices", "remove_unused=True + a sub-model with two or more missing variables of which an early one is unused",
         "missed by C12, caught by the sibling C13", "C13, C12"),
 "C13": ("ODE.__sub__ compares states only, so stateless components are dropped from the remainder", "a component that holds only intermediates / parameters",
         "missed: every component had a state; stateless components were added", "C13"),
 "C14": ("NumPy `sign` printed through numpy.any", "sign() of a batched argument whose columns have different signs",
         "missed: sign only appeared with scalar inputs in C14's family; the E2 function family is now batched", "C14"),
 "C15": ("gotran_to_myokit takes the state's unit from its derivative", "export of a state with a unit", "caught", "C15"),
 "C16": ("sp.simplify applied before `singularities`", "a removable singularity that simplify cancels or rewrites", "caught", "C16"),
 "C17": ("the grammar's `component(...)` blocks lost comment support", "a comment inside a block headed by the `component` keyword form",
         "missed: no base model used the keyword form; a `component-keyword` base was added", "C17"),
 "C18": ("gotran2py.main opens (truncates) the output file before generating", "a model that fails during code generation + a pre-existing output file",
         "missed: the fault alphabet had no generation-time failure with a pre-existing output; added", "C18"),
 "C19": ("use_cse implemented with sympy's default x0, x1, ... temporaries", "use_cse + a model identifier named x0",
         "missed: use_cse was not generated in C19 and x0 was not in the alphabet; both added", "C19"),
 "C20": ("rhs_matrix substitutes row-wise with a tries budget shared between rows", "more rows times depth than the budget (long chains / many states)",
         "caught", "C20"),
}

rows = []
for cid, (change, needs, first, by) in sorted(W.items()):
    p = os.path.join(ROOT, "seeded", f"agent4-{cid}", "meta.json")
    m = json.load(open(p))
    m.update(origin=ORIGIN, change=change, needs_to_manifest=needs, first_evaluation=first, caught_by=by)
    now = {k: v["exit"] for k, v in m.get("checks", {}).items()}
    if not any(e == 1 for e in now.values()):
        print("NOT CAUGHT NOW:", cid, now, file=sys.stderr)
    json.dump(m, open(p, "w"), indent=1)
    rows.append(f"| agent4-{cid} | {change} | {needs} | {first} | {by} |")
print("\n".join(rows))
