#!/venv/bin/python
"""one-off: add origin / change / needs / first_evaluation / caught_by to seeded/agent5-*/meta.json and print the DESIGN table rows"""
import json
import os
import sys

ROOT = os.path.dirname(os.path.dirname(os.path.abspath(__file__)))
ORIGIN = ("written by an independent sub-agent (wave 5) that saw only the property text, its own scratch worktree of /repo, one-line "
          "descriptions of the four earlier changes for the same property, the list of documented known weaknesses and a list of generic ideas")
W = {
 "C01": ("`_parameter_assignments` de-duplicated with setdefault: a parameter declared in two components is read from its first slot while parameter_index names the last",
         "a parameter declared identically in the parameters() blocks of two components, set to a non-default value by index",
         "missed: no model-driven check had a re-declared parameter. Adding one exposed a genuine defect on the unchanged tree (the C code did not compile; fixed in /repo 4387349, "
         "one slot per name), which also removes this change's trigger: the stored demo now passes on the patched tree - kept as a record, neutralised",
         "C01, C02, C04 on the tree before 4387349 (`redecl|parameter-*` models); no longer manifests after the fix"),
 "C02": ("gotran2c.get_code no longer forwards delta to add_schemes", "C backend + a Rush-Larsen scheme + non-default delta + |g| between 1e-8 and delta",
         "missed by C02 (only the default delta), would have been reported by the sibling C06; C02 / C03 now run `options|*` items (get_code keyword combinations)", "C02 (options), C06"),
 "C03": ("JaxPrinter prints a 0/1 indicator Conditional as the bare condition", "backend=jax + a sum of two indicators (bool + bool), unary minus / exp of an indicator",
         "missed: E2 had indicators only as factors; indicators in every arithmetic position were added", "C03 (E2 indicator arithmetic)"),
 "C04": ("index tables keyed by printer.doprint(symbol) instead of the declared name", "an identifier that is a reserved word of the target language (lambda, is, in / int, double)",
         "missed (and a harness KeyError in C04's init checks on such a tree); a `deg|reserved-words` model was added and refused declared names are reported", "C04, C02, C03"),
 "C05": ("the 'assign states' block cached per generator, keyed by the array name only", "remove_unused=True + explicit_euler generated after rhs by the same generator (what get_code does) + a state the reduced rhs does not read",
         "missed: C05 took explicit_euler from a fresh generator and only rhs from get_code; explicit_euler now comes out of get_code itself", "C05"),
 "C06": ("add_schemes filters one shared kwargs dict by signature and re-binds it", "scheme list with explicit_euler before generalized_rush_larsen + non-default delta",
         "missed: the scheme list always had generalized_rush_larsen first; every ordered list of 1..3 schemes is now generated with delta = 0.5", "C06 (scheme-list)"),
 "C07": ("hybrid_rush_larsen removes handled names from the caller's stiff_states list", "the same list object used for a second generation", "caught", "C07"),
 "C08": ("derivative pattern only matched in components that have states", "an orphan derivative placed in a component without states",
         "missed: no base model had a stateless component; the `stateless` base was added", "C08"),
 "C09": ("sort_assignments turns the sorted dependencies back into a set when it removes t / time", "a time-dependent assignment with >= 2 other dependencies + another assignment over a subset of them + different hash seeds",
         "missed: no model of the family used t / time next to several dependencies (and the seed worker imported the checks from a fixed path); `m-time-dependent` added", "C09 (hash seeds)"),
 "C10": ("same_definition compares restated state / parameter values as floats", "a declaration restated in the same component with an equal but differently written value (1 / 1.0, 1/2 / 0.5)",
         "missed: restated declarations were always verbatim; `restated-equal-value*` models added", "C10"),
 "C11": ("And / Or with three or more operands saved with the second operand repeated", "an n-ary And / Or", "caught", "C11"),
 "C12": ("transitive removal of unused names has no type guard: a state derivative read only by unused intermediates is dropped", "remove_unused + a monitored intermediate that reads a derivative",
         "caught - but only by the `deg|derivative-only-monitored` model added an hour earlier because of a side remark in another author's report (see section 11, C20); the machinery of wave 4 would have missed it", "C12"),
 "C13": ("`_missing_variables_assignments` filtered under remove_unused, indices shifted (same idea as agent4-C12)", "remove_unused + sub-model with an early unused missing variable", "caught", "C13"),
 "C14": ("sums of more than 50 terms printed as numpy.sum([...])", "one expression with > 50 per-column terms + a batch",
         "missed: the longest sum in any family had a handful of terms; long sums (12 / 60 / 120 terms) and a 40-factor product were added to the degenerate family", "C14"),
 "C15": ("the .ode printer prints Not(relation) as relation.reversed", "Myokit `not (V > -40)` (negative literal) + save + reload",
         "missed: no state took negative values, so no relation against a negative literal survived simplification. Adding the `neg|*` family exposed a genuine defect on the unchanged tree "
         "(Ge against a negative literal became Gt; fixed in /repo 27e5ea9), and that fix makes sympy rewrite the Not before it reaches the printer: the stored demo now passes on the patched tree - neutralised",
         "C15 (`neg|*`) on the tree before 27e5ea9; no longer manifests after the fix"),
 "C16": ("singularities collected in a dict keyed by the singular point only", "a removable singularity in one variable and a pole in another at the same location", "caught", "C16"),
 "C17": ("COMMENT terminal `#\\s*[^\\n]*` runs past the end of an empty comment", "an empty comment followed by a non-comment line", "caught", "C17"),
 "C18": ("a relative -o name is resolved against the model's directory", "relative --outname + model file outside the working directory",
         "missed: model and working directory always coincided; a `where` dimension (model in a sub-directory / command run from a sub-directory) was added", "C18"),
 "C19": ("Eq operands formatted with str() instead of the printer", "an Eq condition + an identifier the Python printer has to rename (True, False, None, lambda ...)",
         "missed: the templates only had Gt / Lt / Ge relations; a `rels` template (Eq, Not Eq, Le, Ge, abs, exp, power) was added - which also surfaced `pow` as a C identifier (recorded)", "C19 (rels)"),
 "C20": ("jacobi_matrix filled column-wise over the states that occur in the rhs, at the filtered position", "a state no equation reads that is not last in the state order", "caught", "C20"),
}

rows = []
for cid, (change, needs, first, by) in sorted(W.items()):
    p = os.path.join(ROOT, "seeded", f"agent5-{cid}", "meta.json")
    m = json.load(open(p))
    m.update(origin=ORIGIN, change=change, needs_to_manifest=needs, first_evaluation=first, caught_by=by)
    json.dump(m, open(p, "w"), indent=1)
    rows.append(f"| agent5-{cid} | {change} | {needs} | {first} | {by} |")
print("\n".join(rows))
