"""C13 - a component split yields complementary sub-models that reproduce the full model.

For every multi-component E3 model structure (layouts: states in A / B with intermediates and parameters in C; intermediates with the
first state in A; both namings, both text orders, unused definitions) and a family with richer cross-component dependencies, and for EVERY
component C chosen as the split:  A = C.to_ode(), B = model - C
  * missing_variables of A and of B are exactly the names each uses but does not define (reference judgement on the spec)
  * together they contain every state of the original exactly once
  * feeding each part the other's missing values taken (a) from the full model's values and (b) from the partner's generated
    missing_values function: rhs, monitor_values, explicit Euler and generalized Rush-Larsen steps equal the full model's by name.
"""
from __future__ import annotations

import itertools

import numpy

from mc import drive, lang as L, enumerate as E, models
from checks import c01

ID = "C13"
LEVEL = "model_checking"
RULE = ("every multi-component model of the family x every component as the split x backend numpy (+jax in thorough): missing_variables compared "
        "with the reference used-but-undefined set; sub-model modules (get_code with missing_values=partner.missing_variables, schemes euler+GRL) "
        "fed (a) with the full model's values and (b) with the partner's missing_values output; rhs / monitor_values / scheme steps compared by name "
        "with the full model's module on the grid. Non-trivial = split where at least one part has a missing variable.")
ASSUMPTIONS = ["numpy backend (the C templates offer no missing-variable argument)", "finite grid", "the full model's generated module is the oracle for values (it is checked against the reference by C01/C05/C06)"]
ITEM_BUDGET_S = 1800
SCH = ["explicit_euler", "generalized_rush_larsen"]


def rich_family():
    n, v = L.num, L.var
    out = []
    # three components; exported quantities are states, parameters and intermediates sitting early / middle / last in dependency order
    base_assigns = [("a1", L.bin_("+", L.bin_("*", n("1.5"), v("x")), v("p"))), ("a2", L.bin_("-", v("a1"), L.bin_("*", n("0.5"), v("y")))),
                    ("a3", L.bin_("*", v("a2"), v("q"))), ("b1", L.bin_("+", v("a1"), v("z"))), ("b2", L.bin_("*", v("b1"), v("a3"))),
                    ("dx_dt", L.bin_("-", v("a3"), v("x"))), ("dy_dt", L.bin_("+", v("b2"), L.bin_("*", n("0.25"), v("y")))), ("dz_dt", L.bin_("-", v("b1"), L.bin_("*", v("z"), v("p"))))]
    states = [("x", n("1.0")), ("y", n("2.0")), ("z", n("0.5"))]
    params = [("p", n("0.5")), ("q", n("1.5"))]
    layouts = {
        "L1": {"x": "A", "dx_dt": "A", "a1": "A", "a2": "A", "a3": "A", "p": "A", "y": "B", "dy_dt": "B", "z": "B", "dz_dt": "B", "b1": "B", "b2": "B", "q": "B"},
        "L2": {"x": "A", "dx_dt": "A", "a1": "B", "a2": "A", "a3": "B", "p": "B", "y": "B", "dy_dt": "B", "z": "C", "dz_dt": "C", "b1": "C", "b2": "A", "q": "C"},
        "L3": {"x": "A", "dx_dt": "A", "y": "A", "dy_dt": "A", "z": "B", "dz_dt": "B", "a1": "C", "a2": "C", "a3": "C", "b1": "C", "b2": "C", "p": "C", "q": "C"},
        "L4": {"x": "A", "dx_dt": "A", "a1": "A", "p": "A", "y": "B", "dy_dt": "B", "a2": "B", "a3": "B", "q": "B", "z": "C", "dz_dt": "C", "b1": "C", "b2": "C"},
    }
    for ln, comp in layouts.items():
        for order in ("def", "rev"):
            names = [a for a, _ in base_assigns]
            out.append((f"rich|{ln}|{order}", models.spec(states, params, base_assigns, comp=comp, order=names if order == "def" else names[::-1])))
    # an atom tagged with two components (declared once for both): the component field is the text between the outer quotes
    sh_states = [("x", n("1.0")), ("y", n("2.0")), ("z", n("0.5"))]
    sh_params = [("k", n("2.0")), ("p", n("0.5"))]
    sh_assigns = [("a1", L.bin_("*", v("k"), v("x"))), ("b1", L.bin_("+", L.bin_("*", v("k"), v("y")), v("a1"))), ("c1", L.bin_("+", L.bin_("+", v("a1"), v("b1")), L.bin_("*", v("k"), v("z")))),
                  ("dx_dt", L.bin_("-", v("a1"), L.bin_("*", v("p"), v("x")))), ("dy_dt", L.bin_("-", v("b1"), v("y"))), ("dz_dt", L.bin_("-", v("c1"), v("z")))]
    for sn, shared in (("param-AB", {"k": 'A", "B'}), ("param-ABC", {"k": 'A", "B", "C'}), ("param-AB-p-BC", {"k": 'A", "B', "p": 'B", "C'})):
        comp = {"x": "A", "dx_dt": "A", "a1": "A", "y": "B", "dy_dt": "B", "b1": "B", "z": "C", "dz_dt": "C", "c1": "C", "k": "A", "p": "A"}
        comp.update(shared)
        out.append((f"rich|shared|{sn}", models.spec(sh_states, sh_params, sh_assigns, comp=comp)))
    # two components without states (global parameters in the unnamed component, a stimulus component) next to two stateful ones
    st_assigns = [("i_stim", L.bin_("*", v("amp"), L.bin_("+", n("1"), v("t")))), ("i_x", L.bin_("*", v("g"), L.bin_("-", v("x"), v("c")))),
                  ("dx_dt", L.bin_("-", v("i_stim"), v("i_x"))), ("dy_dt", L.bin_("-", L.bin_("*", v("c"), v("x")), v("y")))]
    st_comp = {"g": "", "c": "", "amp": "stimulus", "i_stim": "stimulus", "x": "A", "i_x": "A", "dx_dt": "A", "y": "B", "dy_dt": "B"}
    out.append(("rich|stateless|two", models.spec([("x", n("1.0")), ("y", n("2.0"))], [("g", n("2.0")), ("c", n("0.5")), ("amp", n("1.5"))], st_assigns, comp=st_comp)))
    # names chosen so that alphabetical order is against the dependency order
    ren = {"a1": "zz1", "a2": "yy2", "a3": "xx3", "b1": "ww1", "b2": "vv2"}

    def rn(a):
        if a[0] == "var":
            return ("var", ren.get(a[1], a[1]))
        return tuple(rn(c) if isinstance(c, tuple) else c for c in a)
    for ln, comp in layouts.items():
        out.append((f"rich|{ln}|renamed", models.spec(states, params, [(ren.get(nm, nm), rn(a)) for nm, a in base_assigns], comp={ren.get(k, k): c for k, c in comp.items()})))
    return out


def family(tier):
    specs = [(k, s) for k, s in models.e3_specs("quick" if tier == "quick" else "thorough", variants=True) if "|split|" in k or "|two|" in k]
    if tier != "quick":
        specs = specs[:4000]
    return rich_family() + specs


def bounds(tier):
    return {"models": len(family(tier)), "split": "every component", "schemes": SCH}


def items(tier):
    its = []
    for ch in E.chunks(family(tier), 6):
        its.append({"key": f"{ch[0][0]}..{ch[-1][0]}", "kind": "split", "specs": [[k, s] for k, s in ch], "tier": tier,
                    "sample": {"key": ch[0][0], "text": models.spec_text(ch[0][1])}})
    return its


def tags(c):
    return [t for t in c.split('", "')] if c else [""]


def ref_missing(sp, comps):
    """names used by the assignments of the given components but not defined there"""
    spn = models.norm(sp)
    comp = spn.get("comp") or {}
    inside = lambda n: any(t in comps for t in tags(comp.get(n, "")))
    defined = {n for n, _ in spn["states"] + spn["params"] + spn["assigns"] if inside(n)}
    used = set()
    for n, a in spn["assigns"]:
        if inside(n):
            used |= L.variables(a)
    return sorted(used - defined - {"t", "time"})


def run_item(item):
    g = drive.gx()
    import checks.c03 as c03
    c03._jax_env()
    res = c01.new_res()
    for key, sp in item["specs"]:
        text = models.spec_text(sp)
        ref = models.Ref(sp)
        spn = models.norm(sp)
        compmap = spn.get("comp") or {}
        all_names = [n for n, _ in spn["states"] + spn["params"] + spn["assigns"]]
        comps = sorted({t for n in all_names for t in tags(compmap.get(n, ""))})
        try:
            ode = drive.load(text)
            full = drive.exec_py(drive.py_code(ode, scheme=SCH))
        except Exception as ex:
            res["states"] += 1
            res["skipped"]["full-model-fails"] = res["skipped"].get("full-model-fails", 0) + 1
            continue
        pts = models.model_grid(ref)
        if len(pts) > 81:
            pts = [pt for pt in pts if all(v in (-1.0, 0.5, 2.0, 0.25) for v in pt.values())] or pts[:81]
        for cname in comps:
            res["states"] += 1

            def fail(cls, what, detail=None, _c=cname):
                res["failures"].append({"finding": f"{ID}|{cls}", "what": f"{key} split at component '{_c}': {what}", "size": len(text), "detail": dict(detail or {}, text=text, component=_c),
                                        "replay_item": {"key": key, "kind": "split", "specs": [[key, sp]]}})
            try:
                comp = ode.get_component(cname)
                A = comp.to_ode()
                B = ode - comp
            except Exception as ex:
                fail("split-raises", f"{type(ex).__name__}: {ex}"[:250])
                continue
            res["transitions"] += 2
            parts = {"A": (A, [cname]), "B": (B, [c for c in comps if c != cname])}
            ok = True
            for tag, (sub, cs) in parts.items():
                want = ref_missing(sp, cs)
                got = sub.missing_variables
                if sorted(got) != want or sorted(got.values()) != list(range(len(got))):
                    fail("missing-variables-wrong", f"part {tag}: missing_variables = {got}, names used but not defined there: {want}")
                    ok = False
            sa, sb = [s.name for s in A.states], [s.name for s in B.states]
            if sorted(sa + sb) != sorted(ref.states):
                fail("states-not-partitioned", f"states of the parts {sa} + {sb} != states of the model {ref.states}")
                ok = False
            defined = set()
            for sub_ in (A, B):
                defined |= {a_.name for a_ in sub_.states + sub_.parameters + sub_.intermediates + sub_.state_derivatives}
            lost = sorted(set(all_names) - defined)
            if lost:
                fail("names-defined-in-neither-part", f"the two parts together do not define {lost}")
                ok = False
            if not ok:
                continue
            if A.missing_variables or B.missing_variables:
                res["nontrivial"] += 1
            mods = {}
            try:
                for tag, other in (("A", "B"), ("B", "A")):
                    sub = parts[tag][0]
                    oth = parts[other][0]
                    mv = oth.missing_variables or None
                    if not sub.states and not mv:
                        mods[tag] = None
                        continue
                    mods[tag] = drive.exec_py(drive.py_code(sub, scheme=SCH if sub.states else None, missing_values=mv))
            except Exception as ex:
                fail("submodel-codegen-raises", f"{type(ex).__name__}: {ex}"[:300])
                continue
            res["transitions"] += 4
            bad = {}
            # JAX sub-modules (rich family in quick, everything in thorough): every function must agree with the NumPy sub-module
            jmods = {}
            if key.startswith("rich|") or item.get("tier") != "quick":
                try:
                    for tag, other in (("A", "B"), ("B", "A")):
                        if mods[tag] is not None and parts[tag][0].states:
                            jmods[tag] = drive.exec_py(drive.py_code(parts[tag][0], scheme=SCH, missing_values=parts[other][0].missing_variables or None, backend="jax"))
                except Exception as ex:
                    fail("submodel-codegen-raises-jax", f"{type(ex).__name__}: {ex}"[:300])
                    jmods = {}
            rmods = {}
            try:
                for tag, other in (("A", "B"), ("B", "A")):
                    if mods[tag] is not None:
                        rmods[tag] = drive.exec_py(drive.py_code(parts[tag][0], scheme=SCH if parts[tag][0].states else None, missing_values=parts[other][0].missing_variables or None, remove_unused=True))
            except Exception as ex:
                fail("submodel-codegen-raises-remove-unused", f"{type(ex).__name__}: {ex}"[:300])
                rmods = {}
            for pt in pts:
                sF = numpy.zeros(len(full["state"]))
                for n, i in full["state"].items():
                    sF[i] = pt[n]
                pF = numpy.zeros(len(full["parameter"]))
                for n, i in full["parameter"].items():
                    pF[i] = pt[n]
                with numpy.errstate(all="ignore"):
                    monF = full["monitor_values"](pt["t"], sF, pF)
                    rhsF = full["rhs"](pt["t"], sF, pF)
                    stepF = {s: full[s](sF, pt["t"], 0.125, pF) for s in SCH}
                value = dict(pt)
                for n, i in full["monitor"].items():
                    value[n] = float(monF[i])
                inputs = {}
                for tag in ("A", "B"):
                    sub = parts[tag][0]
                    m = mods[tag]
                    if m is None:
                        continue
                    s = numpy.zeros(len(m["state"]))
                    for n, i in m["state"].items():
                        s[i] = pt[n]
                    p = numpy.zeros(len(m["parameter"]))
                    for n, i in m["parameter"].items():
                        p[i] = pt[n]
                    mvn = sub.missing_variables
                    mv = numpy.zeros(len(mvn))
                    for n, i in mvn.items():
                        mv[i] = value[n]
                    inputs[tag] = (s, p, mv, mvn)
                for tag, other in (("A", "B"), ("B", "A")):
                    if tag not in inputs:
                        continue
                    m = mods[tag]
                    s, p, mv, mvn = inputs[tag]
                    extra = [mv] if mvn else []
                    # (b) the partner's missing_values must reproduce what this part needs
                    if mvn and other in inputs and "missing_values" in mods[other]:
                        so, po, mvo, mvno = inputs[other]
                        try:
                            with numpy.errstate(all="ignore"):
                                out = mods[other]["missing_values"](pt["t"], so, po, *([mvo] if mvno else []))
                            res["transitions"] += 1
                            if len(out) != len(mvn):
                                bad.setdefault("missing_values-length", (pt, f"part {other}.missing_values returned {len(out)} values, part {tag} needs {len(mvn)}"))
                            else:
                                for n, i in mvn.items():
                                    res["evaluations"] += 1
                                    if not _eq(float(out[i]), value[n]):
                                        bad.setdefault("missing_values-wrong", (pt, f"part {other}.missing_values[{n}] = {float(out[i])!r}, full model value {value[n]!r}"))
                        except Exception as ex:
                            bad.setdefault("missing_values-raises", (pt, repr(ex)[:200]))
                    if tag in rmods:
                        rm = rmods[tag]
                        fns = (["rhs"] + SCH if len(m["state"]) else []) + (["missing_values"] if "missing_values" in m else [])
                        for fn in fns:
                            try:
                                with numpy.errstate(all="ignore"):
                                    if fn in SCH:
                                        a_, b_ = m[fn](s, pt["t"], 0.125, p, *extra), rm[fn](s, pt["t"], 0.125, p, *extra)
                                    else:
                                        a_, b_ = m[fn](pt["t"], s, p, *extra), rm[fn](pt["t"], s, p, *extra)
                                res["evaluations"] += 1
                                if len(a_) != len(b_) or not all(_eq(float(u_), float(v_)) for u_, v_ in zip(a_, b_)):
                                    bad.setdefault(f"remove-unused-changes-{fn}", (pt, f"part {tag}: {fn} with remove_unused=True {list(map(float, b_))} != without {list(map(float, a_))}"))
                            except Exception as ex:
                                bad.setdefault(f"remove-unused-{fn}-raises", (pt, f"part {tag}: {ex!r}"[:200]))
                    if not len(m["state"]):
                        try:
                            with numpy.errstate(all="ignore"):
                                mon = m["monitor_values"](pt["t"], s, p, *extra)
                            for n, i in m["monitor"].items():
                                res["evaluations"] += 1
                                if not _eq(float(mon[i]), value[n]):
                                    bad.setdefault("monitor-differs", (pt, f"part {tag} (no states): monitor {n} = {float(mon[i])!r}, full model {value[n]!r}"))
                        except Exception as ex:
                            bad.setdefault("submodel-call-raises", (pt, f"part {tag} (no states): {ex!r}"[:200]))
                        continue
                    try:
                        with numpy.errstate(all="ignore"):
                            r = m["rhs"](pt["t"], s, p, *extra)
                            mon = m["monitor_values"](pt["t"], s, p, *extra)
                            steps = {sc: m[sc](s, pt["t"], 0.125, p, *extra) for sc in SCH}
                    except Exception as ex:
                        bad.setdefault("submodel-call-raises", (pt, f"part {tag}: {ex!r}"[:200]))
                        continue
                    res["transitions"] += 4
                    if tag in jmods:
                        import jax.numpy as jnp
                        jm = jmods[tag]
                        ja = [jnp.array(s), jnp.array(p)] + ([jnp.array(mv)] if mvn else [])
                        try:
                            cmp_ = [("rhs", r, jm["rhs"](pt["t"], *ja)), ("monitor_values", mon, jm["monitor_values"](pt["t"], *ja))]
                            cmp_ += [(sc, steps[sc], jm[sc](ja[0], pt["t"], 0.125, *ja[1:])) for sc in SCH]
                            if "missing_values" in m:
                                with numpy.errstate(all="ignore"):
                                    cmp_.append(("missing_values", m["missing_values"](pt["t"], s, p, *extra), jm["missing_values"](pt["t"], *ja)))
                            for fn, a_, b_ in cmp_:
                                a_, b_ = numpy.asarray(a_, dtype=float), numpy.asarray(b_, dtype=float)
                                res["evaluations"] += 1
                                if a_.shape != b_.shape or not all(_eq(float(u), float(v)) for u, v in zip(a_.ravel(), b_.ravel())):
                                    bad.setdefault(f"jax-{fn}-differs-from-numpy", (pt, f"part {tag}: jax {fn} = {b_.tolist()}, numpy {a_.tolist()}"))
                        except Exception as ex:
                            bad.setdefault("jax-submodel-call-raises", (pt, f"part {tag}: {ex!r}"[:200]))
                    for n, i in m["state"].items():
                        res["evaluations"] += 3
                        if not _eq(float(r[i]), float(rhsF[full["state"][n]])):
                            bad.setdefault("rhs-differs", (pt, f"part {tag}: d{n}/dt = {float(r[i])!r}, full model {float(rhsF[full['state'][n]])!r}"))
                        for sc in SCH:
                            if not _eq(float(steps[sc][i]), float(stepF[sc][full["state"][n]])):
                                bad.setdefault(f"{sc}-differs", (pt, f"part {tag}: {sc}[{n}] = {float(steps[sc][i])!r}, full model {float(stepF[sc][full['state'][n]])!r}"))
                    for n, i in m["monitor"].items():
                        res["evaluations"] += 1
                        if not _eq(float(mon[i]), value[n]):
                            bad.setdefault("monitor-differs", (pt, f"part {tag}: monitor {n} = {float(mon[i])!r}, full model {value[n]!r}"))
                res["traces"] += 1
            for cls, (pt, msg) in sorted(bad.items()):
                fail(cls, f"{msg} at {pt}", {"point": pt})
    return res


def _eq(a, b):
    return a == b or (a != a and b != b) or abs(a - b) <= 1e-12 * max(1.0, abs(a), abs(b))
