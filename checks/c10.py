"""C10 - the model does not depend on the order in which statements are written.

For each model of the family: ALL permutations of its top-level blocks (<= 6 blocks -> 720), all permutations of the entries inside
each declaration block (<= 3!), all permutations of the assignment lines inside each expressions block (<= 4!), and in thorough the
product block-order x line-order for the two smaller models.  Invariants against the canonical text: ODE ==, byte-identical NumPy and
C code, identical state / parameter / monitor layouts; loads without error when use precedes definition.
"""
from __future__ import annotations

import itertools

from mc import drive, lang as L, enumerate as E, models
from checks import c01

ID = "C10"
LEVEL = "model_checking"
RULE = ("each family model x every permutation of blocks / of entries within a declaration block / of lines within an expressions block: "
        "ode_from_string(permuted) == ode_from_string(canonical), gotran2py.get_code and gotran2c.get_code (all schemes) byte-identical, "
        "same layouts. Non-trivial = permutation that is not the identity.")
ASSUMPTIONS = ["comment lines are held fixed (not part of the property)", "permutation sizes bounded as stated"]
ITEM_BUDGET_S = 1200

# a model = list of blocks; block = (kind, component, [entries]) ; entries are strings
FAMILY = {
    "one": [("parameters", "", ["p=2.0", "q=3.0", "r=0.5"]), ("states", "", ["x=1.0", "y=2.0", "z=0.25"]),
            ("expressions", "", ["b = a + q", "a = p*x", "dx_dt = b - x", "c = a*b"]), ("expressions", "", ["dy_dt = c*y - r", "dz_dt = z*a"])],
    "two": [("parameters", "A", ["p=2.0", "k=1.5"]), ("parameters", "B", ["q=3.0"]), ("states", "A", ["x=1.0", "w=0.5"]), ("states", "B", ["y=2.0"]),
            ("expressions", "A", ["a = p*x + k", "dx_dt = a - x", "dw_dt = b*w"]), ("expressions", "B", ["b = a + q", "dy_dt = b*y"])],
    "three": [("parameters", "C", ["p=2.0", "q=3.0"]), ("states", "A", ["x=1.0"]), ("states", "B", ["y=2.0"]),
              ("expressions", "C", ["m = p + q*x", "n = m*y"]), ("expressions", "A", ["dx_dt = n - x"]), ("expressions", "B", ["dy_dt = m - y"])],
    "flat-use-before-def": [("states", "", ["x=1.0", "y=2.0"]), ("parameters", "", ["p=2.0"]),
                            ("expressions", "", ["dx_dt = c3", "c3 = c2 + y", "c2 = c1*p", "c1 = x + 1"]), ("expressions", "", ["dy_dt = c1 - c3"])],
}


# texts that are NOT models (a name with two differing definitions over the same variables): every permutation must be refused alike -
# the outcome (refusal, or the model obtained) must never depend on which of the two lines comes first
FAMILY["conflict"] = [("parameters", "", ["g_a=2.0", "g_b=3.0"]), ("states", "", ["v=1.0", "w=2.0"]),
                      ("expressions", "", ["i_tot = g_a*v + g_b*w", "dv_dt = -i_tot", "i_tot = g_a*v - g_b*w", "dw_dt = v - w"])]
FAMILY["conflict-two-components"] = [("parameters", "A", ["p=2.0"]), ("states", "A", ["x=1.0"]), ("states", "B", ["y=2.0"]),
                                     ("expressions", "A", ["a = p*x", "dx_dt = a - x"]), ("expressions", "B", ["dy_dt = a*y"]), ("expressions", "A", ["a = x*p*2"])]
FAMILY["repeated-verbatim"] = [("parameters", "", ["p=2.0", "q=3.0"]), ("states", "", ["x=1.0", "y=2.0"]),
                               ("expressions", "", ["a = p*x + q", "dx_dt = a - x", "a = p*x + q", "dy_dt = a*y"])]


# the same name declared identically in two components (each component owns a copy), and atoms tagged with two components
FAMILY["shared-declaration"] = [("parameters", "Na", ["F=96.5", "g=1.0"]), ("parameters", "K", ["F=96.5"]), ("states", "Na", ["m=0.1"]), ("states", "K", ["n=0.3"]),
                                ("expressions", "Na", ["dm_dt = g*F - m"]), ("expressions", "K", ["dn_dt = F*n - m"])]
FAMILY["two-tags"] = [("parameters", 'Main", "X', ["k=2.0"]), ("parameters", "Main", ["c=0.5"]), ("states", 'Main", "X', ["x=1.0"]), ("states", "Main", ["y=2.0"]),
                      ("expressions", 'Main", "X', ["dx_dt = k - x*c"]), ("expressions", "Main", ["a = k*x", "dy_dt = a - y"])]


FAMILY["case-twins"] = [("parameters", "Na", ["k=1.0", "K=2.0"]), ("parameters", "NA", ["q=3.0", "Q=4.0"]), ("states", "Na", ["x=1.0", "X=2.0"]), ("states", "NA", ["y=0.5"]),
                        ("expressions", "Na", ["dx_dt = k*X - x", "dX_dt = K*x - q"]), ("expressions", "NA", ["i_K = Q*y", "I_K = q*y + x", "dy_dt = i_K - I_K"])]


# a declaration restated in the same component with an equal but differently written value (1 / 1.0, 1/2 / 0.5): whatever the library does
# with it (refuse, or keep one), the outcome must be the same for every order of the blocks and of the entries
FAMILY["restated-equal-value"] = [("parameters", "A", ["g=1", "k=2.0"]), ("parameters", "A", ["g=1.0"]), ("states", "A", ["x=1.0", "y=1/2"]), ("states", "A", ["y=0.5"]),
                                  ("expressions", "A", ["dx_dt = g*y - k*x", "dy_dt = x - y"])]
FAMILY["restated-equal-value-flat"] = [("parameters", "", ["g=1", "k=2.0", "g=1.0"]), ("states", "", ["x=1.0", "y=0.5"]),
                                       ("expressions", "", ["dx_dt = g*y - k*x", "dy_dt = x - y"])]


def render(blocks):
    lines = []
    for kind, comp, ents in blocks:
        if kind == "expressions":
            if comp:
                lines.append(f'expressions("{comp}")')
            lines += ents
        else:
            head = f'{kind}("{comp}", ' if comp else f"{kind}("
            lines.append(head + ", ".join(ents) + ")")
    return "\n".join(lines) + "\n"


def valid_block_order(blocks):
    """an un-named expressions block directly after a named one would be merged into it by the grammar: keep the text well-formed
    by requiring that un-named expression blocks are never preceded by another expressions block"""
    prev = None
    for kind, comp, _ in blocks:
        if kind == "expressions" and prev == "expressions" and comp == "":
            return False
        prev = kind
    return True


def perms(name, tier):
    base = FAMILY[name]
    out = []
    for perm in itertools.permutations(range(len(base))):
        blocks = [base[i] for i in perm]
        if valid_block_order(blocks):
            out.append((f"blocks|{''.join(map(str, perm))}", blocks))
    for bi, (kind, comp, ents) in enumerate(base):
        for perm in itertools.permutations(range(len(ents))):
            if perm == tuple(range(len(ents))):
                continue
            blocks = list(base)
            blocks[bi] = (kind, comp, [ents[i] for i in perm])
            out.append((f"entries|{bi}|{''.join(map(str, perm))}", blocks))
    if tier != "quick" and len(base) <= 4:
        ex = [i for i, b in enumerate(base) if b[0] == "expressions"]
        for perm in itertools.permutations(range(len(base))):
            for bi in ex:
                ents = base[bi][2]
                for lp in itertools.permutations(range(len(ents))):
                    blocks = [base[i] if i != bi else (base[i][0], base[i][1], [ents[j] for j in lp]) for i in perm]
                    if valid_block_order(blocks):
                        out.append((f"both|{''.join(map(str, perm))}|{bi}|{''.join(map(str, lp))}", blocks))
    return out


def bounds(tier):
    return {m: len(perms(m, tier)) for m in FAMILY}


def items(tier):
    its = []
    for m in FAMILY:
        ps = perms(m, tier)
        for ch in E.chunks(ps, 20):
            its.append({"key": f"{m}|{ch[0][0]}..{ch[-1][0]}", "kind": "perm", "model": m, "perms": [[k, b] for k, b in ch],
                        "sample": {"model": m, "perm": ch[0][0], "text": render(ch[0][1])}})
    return its


_base_cache = {}


def observe(text):
    try:
        ode = drive.load(text)
        py = drive.py_code(ode, scheme=list(models.SCHEMES))
        c = drive.c_code(ode, scheme=list(models.SCHEMES))
    except Exception as ex:
        return None, "refused", type(ex).__name__
    return ode, py, c


def run_item(item):
    drive.gx()
    res = c01.new_res()
    m = item["model"]
    if m not in _base_cache:
        _base_cache[m] = observe(render(FAMILY[m]))
    ode0, py0, c0 = _base_cache[m]
    for key, blocks in item["perms"]:
        res["states"] += 1
        blocks = [(k, c, list(e)) for k, c, e in blocks]
        text = render(blocks)

        def fail(cls, what):
            res["failures"].append({"finding": f"{ID}|{cls}|{m}|{key.split('|')[0]}", "what": f"{m} {key}: {what}", "size": len(key),
                                    "detail": {"text": text, "canonical": render(FAMILY[m])},
                                    "replay_item": {"key": f"{m}|{key}", "kind": "perm", "model": m, "perms": [[key, blocks]]}})
        ode, py, c = observe(text)
        if (py == "refused") != (py0 == "refused"):
            if py == "refused":
                fail("permuted-text-rejected", f"the canonical text loads but this permutation is refused ({c})")
            else:
                fail("refusal-depends-on-order", f"the canonical text is refused ({c0}) but this permutation is accepted")
            continue
        if py == "refused":
            res["transitions"] += 1
            res["traces"] += 1
            res["evaluations"] += 1
            res["nontrivial"] += 1
            continue
        res["transitions"] += 3
        res["traces"] += 1
        res["evaluations"] += 3
        res["nontrivial"] += 1 if text != render(FAMILY[m]) else 0
        if py != py0:
            fail("python-code-differs", _first_diff(py0, py))
        if c != c0:
            fail("c-code-differs", _first_diff(c0, c))
        if not (ode == ode0):
            fail("ode-not-equal", "ODE objects compare unequal although the text is a permutation of the canonical one")
    return res


def _first_diff(a, b):
    la, lb = a.splitlines(), b.splitlines()
    for i, (x, y) in enumerate(zip(la, lb)):
        if x != y:
            return f"first differing line {i}: {x!r} vs {y!r}"
    return f"lengths differ: {len(la)} vs {len(lb)} lines"
