"""C17 - comments, layout and annotations are inert.

Transformations of each base model (one / two components), each applied at EVERY position:
  T1 a comment line at every line boundary x a set of representative comment texts
  T2 a trailing comment on every assignment x the same texts
  T3 trailing comments = every string of <= k tokens over the token alphabet (batched: one assignment per string)
  T4 comment lines   = every string of <= k tokens, each followed by a sentinel assignment (detects swallowed lines)
  T5 blank lines at every boundary, indentation of every line, CRLF, trailing blanks, missing final newline
  T6 a line break after every binary operator and inside every parenthesis of every assignment
  T7 unit / description annotations added to every declaration and assignment
Invariants against the base: loads within the time budget (a hang is a violation), byte-identical generated NumPy code (hence
numerics and slot layout), same component membership of every definition.
"""
from __future__ import annotations

import itertools
import re

from mc import drive, lang as L, enumerate as E, models, child
from checks import c01

ID = "C17"
LEVEL = "model_checking"
RULE = ("each base model x each transformation T1..T7 at every position; comment strings = all token strings up to the stated length over the "
        "alphabet {mV ms 1 2 9 x a = / * ** - ( ) ' \" # space tab empty}; oracle: loads within budget, identical generated code, identical "
        "component membership. Non-trivial = transformed text that differs from the base text.")
ASSUMPTIONS = ["comment strings longer than the bound are not explored", "hang verdict = 300x the normal load time, re-run alone"]
ITEM_BUDGET_S = 1800
TOKENS = ["mV", "ms", "1", "2", "9", "x", "a", "=", "/", "*", "**", "-", "(", ")", "'", '"', "#", " ", "\t", "",
          # characters that some line-splitting / whitespace rules treat as separators
          "\x0c", "\x0b", "\x1c", "\x85", "\u2028", "\u2029", "\xa0", "\r"]
TEXTS = ["", " ", "plain words", "mV", " mV", "ms**-1", "1", "1/0", "(", ")", "-", "mV/", "x = 1", "a = 3", "dx_dt = 0", "states(z=1)", "#", "## double",
         'a "quoted" word', "it's", "mV # and more", "9**9**9", "expressions(\"B\")", "Conditional(", "pi", "e", "1e400", "dimensionless", "\t tab",
         "page\x0cbreak", "previously:\u2028i_old = 2", "vt\x0bk = 1", "nel\x85x = 3", "fs\x1cq = 1", "ps\u2029states(z=1)", "cr\ronly", "nbsp\xa0text", "bom\ufefftext", "emoji \U0001F600", "tab\tk = 1",
         "2 ms", "0.5", "100 mV", "5 / ms", "-1", "1.5e-3 mV", "mV ms", "3 mV**2", "percent", "%", "degC", "1/ms", "ms^-1", "[mV]", "kg*m/s**2", "mol/L"]

BASES = {
    "one": ['parameters(p=2.0, q=3.0)', 'states(x=1.0, y=2.0)', 'a = p*x + q', 'dx_dt = a - x', 'dy_dt = a*y - (q + x)'],
    "two": ['parameters("A", p=2.0)', 'parameters("B", q=3.0)', 'states("A", x=1.0)', 'states("B", y=2.0)', 'expressions("A")', 'a = p*x',
            'dx_dt = a - (x + 1)', 'expressions("B")', 'b = a + q', 'dy_dt = b*y'],
}
# verbatim repetitions of a definition are allowed by the language; annotating only one of the copies must stay inert
BASES["dup"] = ['parameters(p=2.0, q=3.0)', 'parameters(p=2.0)', 'states(x=1.0, y=2.0)', 'states(y=2.0)', 'a = p*x + q', 'dx_dt = a - x', 'a = p*x + q', 'dy_dt = a*y - (q + x)', 'dx_dt = a - x']
BASES["component-keyword"] = ['parameters("A", p=2.0)', 'parameters("B", q=3.0)', 'states("A", x=1.0)', 'states("B", y=2.0)', 'component("A")', 'a = p*x',
                              'dx_dt = a - (x + 1)', 'component("B")', 'b = a + q', 'c2 = b*2', 'dy_dt = b*y - c2']
NAMES = {"component-keyword": ["p", "q", "x", "y", "a", "b", "c2", "dx_dt", "dy_dt"], "one": ["p", "q", "x", "y", "a", "dx_dt", "dy_dt"], "two": ["p", "q", "x", "y", "a", "b", "dx_dt", "dy_dt"], "dup": ["p", "q", "x", "y", "a", "dx_dt", "dy_dt"]}


def is_assign(line):
    return re.match(r"^\s*[A-Za-z_]\w*\s*=", line) is not None and not line.lstrip().startswith(("parameters", "states"))


def strings(k):
    out = []
    for n in range(0, k + 1):
        for tup in itertools.product(TOKENS, repeat=n):
            out.append("".join(tup))
    seen, res = set(), []
    for s in out:
        if s not in seen and "\n" not in s:
            seen.add(s)
            res.append(s)
    return res


def transforms(bn, tier):
    base = BASES[bn]
    out = []
    n = len(base)
    for b in range(n + 1):
        for ti, t in enumerate(TEXTS):
            lines = base[:b] + ["#" + t] + base[b:]
            out.append((f"T1|b{b}|t{ti}", "\n".join(lines) + "\n"))
    for i, ln in enumerate(base):
        if is_assign(ln):
            for ti, t in enumerate(TEXTS):
                lines = list(base)
                lines[i] = ln + " #" + t
                out.append((f"T2|l{i}|t{ti}", "\n".join(lines) + "\n"))
                lines[i] = ln + "#" + t
                out.append((f"T2n|l{i}|t{ti}", "\n".join(lines) + "\n"))
    # T5 layout
    for b in range(n + 1):
        out.append((f"T5|blank|b{b}", "\n".join(base[:b] + [""] + base[b:]) + "\n"))
        out.append((f"T5|blank2|b{b}", "\n".join(base[:b] + ["", "   ", "\t"] + base[b:]) + "\n"))
    for i in range(n):
        for ind_i, ind in enumerate(("  ", "\t", "        ")):
            lines = list(base)
            lines[i] = ind + lines[i]
            out.append((f"T5|indent{ind_i}|l{i}", "\n".join(lines) + "\n"))
        lines = list(base)
        lines[i] = lines[i] + "   "
        out.append((f"T5|trailing-blanks|l{i}", "\n".join(lines) + "\n"))
        lines[i] = base[i] + "\t"
        out.append((f"T5|trailing-tab|l{i}", "\n".join(lines) + "\n"))
    out.append(("T5|crlf", "\r\n".join(base) + "\r\n"))
    out.append(("T5|no-final-newline", "\n".join(base)))
    out.append(("T5|all-indented", "\n".join("    " + ln for ln in base) + "\n"))
    out.append(("T5|leading-blank-lines", "\n\n\n" + "\n".join(base) + "\n"))
    out.append(("T5|trailing-blank-lines", "\n".join(base) + "\n\n\n"))
    out.append(("T5|spaces-around-eq", "\n".join(re.sub(r"\s*=\s*", "   =   ", ln) if is_assign(ln) else ln for ln in base) + "\n"))
    out.append(("T5|no-spaces", "\n".join(ln.replace(" ", "") if is_assign(ln) else ln for ln in base) + "\n"))
    # T6 line continuation inside expressions
    for i, ln in enumerate(base):
        if not is_assign(ln):
            # declaration blocks: newline after '(' , after each comma, before ')'
            for m in re.finditer(r"[(,]", ln):
                lines = list(base)
                lines[i] = ln[: m.end()] + "\n" + ln[m.end():]
                out.append((f"T6|decl|l{i}|c{m.end()}", "\n".join(lines) + "\n"))
            if ln.endswith(")"):
                lines = list(base)
                lines[i] = ln[:-1] + "\n)"
                out.append((f"T6|decl|l{i}|close", "\n".join(lines) + "\n"))
            continue
        eq = ln.index("=")
        for m in re.finditer(r"[-+*/(]", ln[eq:]):
            pos = eq + m.end()
            lines = list(base)
            lines[i] = ln[:pos] + "\n    " + ln[pos:]
            out.append((f"T6|assign|l{i}|c{pos}", "\n".join(lines) + "\n"))
        for m in re.finditer(r"\)", ln[eq:]):
            pos = eq + m.start()
            lines = list(base)
            lines[i] = ln[:pos] + "\n" + ln[pos:]
            out.append((f"T6|assign-close|l{i}|c{pos}", "\n".join(lines) + "\n"))
    # T7 annotations
    for i, ln in enumerate(base):
        if ln.startswith(("parameters", "states")):
            for ai, (u, d) in enumerate((('unit="mV"', None), (None, 'description="a text"'), ('unit="mV"', 'description="a, text (x=1) # not a comment"'),
                                         ('unit="1"', 'description=""'), ('unit="not_a_unit"', None), ('unit="2 ms"', None), ('unit="0.5"', None), ('unit="mV/ms"', 'description="100 %"'),
                                         ('unit="ms**-1"', None), ('unit=""', None), ('unit="1/0"', None))):
                def repl(m):
                    extra = "".join(", " + z for z in (u, d) if z)
                    return f"{m.group(1)}=ScalarParam({m.group(2)}{extra})"
                lines = list(base)
                lines[i] = re.sub(r"(\b[a-z]\w*)=([0-9.]+)", repl, ln)
                out.append((f"T7|decl|l{i}|a{ai}", "\n".join(lines) + "\n"))
        elif is_assign(ln):
            for ui, u in enumerate(("mV", "ms**-1", "uA/cm**2", "1", "mM", "dimensionless", "S/mF")):
                lines = list(base)
                lines[i] = ln + " # " + u
                out.append((f"T7|assign-unit|l{i}|u{ui}", "\n".join(lines) + "\n"))
    return out


def bounds(tier):
    k = 2 if tier == "quick" else 3
    return {"token_alphabet": TOKENS, "max_tokens": k, "token_strings": len(strings(k)), "representative_texts": len(TEXTS), "bases": list(BASES)}


def items(tier):
    its = []
    for bn in BASES:
        tr = transforms(bn, tier)
        for ch in E.chunks(tr, 25):
            its.append({"key": f"{bn}|{ch[0][0]}..{ch[-1][0]}", "kind": "texts", "base": bn, "texts": [[k, t] for k, t in ch],
                        "sample": {"base": bn, "transform": ch[0][0], "text": ch[0][1]}})
    k = 2 if tier == "quick" else 3
    ss = strings(k)
    for kind in ("T3", "T4"):
        for i, ch in enumerate(E.chunks(ss, 150)):
            its.append({"key": f"{kind}|{i:04d}", "kind": kind, "strings": ch, "sample": {"kind": kind, "first": ch[:5], "n": len(ch)}})
    return its


def observe(text, names):
    ode = drive.load(text)
    code = drive.py_code(ode)
    memb = {n: tuple(ode[n].components) for n in names}
    return code, memb


_base = {}


def base_obs(bn):
    if bn not in _base:
        _base[bn] = observe("\n".join(BASES[bn]) + "\n", NAMES[bn])
    return _base[bn]


def classify_text(key):
    return key.split("|")[0]


def run_item(item):
    drive.gx()
    res = c01.new_res()
    if item["kind"] == "texts":
        bn = item["base"]
        code0, memb0 = base_obs(bn)
        for key, text in item["texts"]:
            res["states"] += 1
            kind = key.split("|")
            tid = kind[-1] if kind[0] in ("T1", "T2", "T2n") else ""
            label = "|".join(kind[:1] + ([f"text={TEXTS[int(tid[1:])]!r}"] if tid.startswith("t") and kind[0] in ("T1", "T2", "T2n") else kind[1:2]))

            def fail(cls, what, _key=key, _text=text):
                res["failures"].append({"finding": f"{ID}|{cls}|{label}", "what": f"{bn} {_key}: {what}", "size": len(_text),
                                        "detail": {"text": _text, "base": "\n".join(BASES[bn])},
                                        "replay_item": {"key": f"{bn}|{_key}", "kind": "texts", "base": bn, "texts": [[_key, _text]]}})
            st, out = child.run(observe, (text, NAMES[bn]), timeout=30.0)
            res["transitions"] += 2
            res["traces"] += 1
            res["evaluations"] += 1
            res["nontrivial"] += 1
            if st == "hang":
                fail("hang", "loading does not finish within 30 s (normal: 0.05 s)")
            elif st == "exc":
                fail(f"raises-{out[0]}", f"loadable model fails to load after an inert change: {out[0]}: {out[1][:150]}")
            else:
                code, memb = out
                if memb != memb0:
                    diff = {n: (memb0[n], memb[n]) for n in memb if memb[n] != memb0[n]}
                    fail("membership-changed", f"component membership changed: {diff}")
                elif code != code0:
                    fail("code-differs", "generated code differs from the base model's: " + _first_diff(code0, code))
        return res
    run_strings(item["kind"], list(item["strings"]), res)
    return res


def batch_text(kind, ss):
    lines = ["parameters(p=2.0)", "states(x=1.0)", "dx_dt = p - x"]
    if kind == "T3":
        for i, s in enumerate(ss):
            lines.append(f"k{i} = x*{i + 2} #{s}")
    else:
        for i, s in enumerate(ss):
            lines.append(f"#{s}")
            lines.append(f"k{i} = x*{i + 2}")
    lines.append("last = x + p")
    return "\n".join(lines) + "\n"


def batch_observe(kind, ss):
    ode = drive.load(batch_text(kind, ss))
    got = {a.name: str(a.expr) for a in ode.intermediates}
    return got, {a.name: tuple(a.components) for a in ode.intermediates}


def run_strings(kind, ss, res):
    st, out = child.run(batch_observe, (kind, ss), timeout=30.0 if len(ss) > 1 else 15.0)
    res["transitions"] += 1
    bad = None
    if st == "ok":
        got, memb = out
        want = {f"k{i}": f"x*{i + 2}" for i in range(len(ss))}
        want["last"] = "p + x"
        missing = sorted(set(want) - set(got))
        wrong = sorted(n for n in want if n in got and got[n].replace(" ", "") not in (want[n].replace(" ", ""), "x+p"))
        moved = sorted(n for n, c in memb.items() if c != ("",))
        if not missing and not wrong and not moved and len(got) == len(want):
            res["states"] += len(ss)
            res["traces"] += 1
            res["evaluations"] += len(ss)
            res["nontrivial"] += len(ss)
            return
        bad = f"definitions missing {missing[:3]} wrong {wrong[:3]} moved {moved[:3]} extra {sorted(set(got) - set(want))[:3]}"
        cls = "definition-lost-or-changed"
    elif st == "hang":
        bad, cls = "loading does not finish within the budget", "hang"
    else:
        bad, cls = f"{out[0]}: {out[1][:150]}", f"raises-{out[0]}"
    if len(ss) > 1:
        h = len(ss) // 2
        run_strings(kind, ss[:h], res)
        run_strings(kind, ss[h:], res)
        return
    res["states"] += 1
    res["evaluations"] += 1
    res["nontrivial"] += 1
    s = ss[0]
    where = "trailing comment" if kind == "T3" else "comment line"
    res["failures"].append({"finding": f"{ID}|{kind}|{cls}|{shape(s)}", "what": f"{where} {('#' + s)!r}: {bad}", "size": len(s),
                            "detail": {"comment": s, "text": batch_text(kind, ss)},
                            "replay_item": {"key": f"{kind}|single|{s!r}", "kind": kind, "strings": [s]}})


def shape(s):
    """abstract a comment string to a shape so that findings are bucketed: identifiers -> w, digits -> 9, blanks -> _"""
    t = re.sub(r"[A-Za-z_]+", "w", s)
    t = re.sub(r"[0-9]+", "9", t)
    t = re.sub(r"[ \t]+", "_", t)
    return t or "<empty>"


def _first_diff(a, b):
    la, lb = a.splitlines(), b.splitlines()
    for i, (x, y) in enumerate(zip(la, lb)):
        if x != y:
            return f"line {i}: {x!r} vs {y!r}"
    return f"lengths differ: {len(la)} vs {len(lb)} lines"
