"""C19 - model identifiers never collide with names the generated code uses itself.

Alphabet: generator locals (dt t time states parameters values shape missing_variables numpy), derived names (<n>_linearized, _values_0,
state parameter monitor missing, rhs, state_index, init_state_values ...), all Python keywords / soft keywords and common builtins, C keywords
and math.h names, identifiers containing true / false, sympy names, d<..>_dt forms, grammar keywords  x  role {state, parameter, intermediate}
x backend {numpy, c, jax} x function {rhs, monitor_values, explicit_euler, generalized_rush_larsen, hybrid_rush_larsen}.
Oracle: the same model with the identifier consistently renamed to a fresh name (renaming done on the AST, by role) must give equal values
by (renamed) slot name - or loading / generation must fail with an error.  A module that is generated but does not import / compile, a
run-time exception inside generated code, or a silently different value is a violation.
"""
from __future__ import annotations

import keyword

import numpy

from mc import drive, lang as L, enumerate as E, models
from checks import c01

ID = "C19"
LEVEL = "model_checking"
RULE = ("every identifier of the alphabet x role x backend: template model with the identifier in that role vs the same model with a fresh name; "
        "all five generated functions compared by (renamed) slot name on the grid; acceptable outcomes are equality or a load/generation/compile "
        "error. Non-trivial = identifier accepted by the loader in that role.")
ASSUMPTIONS = ["gcc/jax trusted", "finite grid", "pairs of clashing identifiers only in thorough"]
ITEM_BUDGET_S = 1800
FUNCS = ("rhs", "monitor_values") + models.SCHEMES

GEN = ["dt", "t", "time", "states", "parameters", "values", "shape", "missing_variables", "numpy", "name", "key", "value", "jax", "math", "self"]
DERIVED = ["dx_dt_linearized", "dy_dt_linearized", "x_linearized", "_values_0", "_values_1", "values_0", "state", "parameter", "monitor", "missing", "rhs", "monitor_values",
           "state_index", "parameter_index", "monitor_index", "init_state_values", "init_parameter_values", "explicit_euler", "generalized_rush_larsen",
           "hybrid_rush_larsen", "NUM_STATES", "NUM_PARAMS", "NUM_MONITORED", "missing_values", "forward_euler"]
PY = sorted(set(keyword.kwlist) | set(keyword.softkwlist)) + ["len", "abs", "max", "min", "sum", "int", "float", "range", "print", "list", "dict", "id", "input", "exec", "eval", "str", "zip"]
CKW = ["double", "const", "int", "float", "void", "return", "if", "else", "for", "while", "switch", "case", "break", "continue", "static", "struct", "union", "typedef", "sizeof",
       "long", "short", "char", "unsigned", "signed", "goto", "do", "default", "enum", "extern", "register", "volatile", "auto", "inline", "restrict", "main", "NULL", "bool"]
CMATH = ["exp", "pow", "fabs", "sqrt", "sin", "cos", "log", "floor", "fmod", "M_PI", "NAN", "INFINITY", "strcmp", "y0", "y1", "j0", "j1", "gamma", "erf", "ceil", "round", "fmax", "log2", "exp2", "cbrt"]
TF = ["true", "false", "trueish", "is_true", "falsehood", "xtruey", "True_", "FALSE"]
SYM = ["E", "I", "S", "N", "O", "Q", "pi", "zoo", "oo", "nan", "beta", "gamma", "zeta", "lambda", "Symbol", "im", "re", "sign", "Abs", "Mod", "Min", "Max", "Function", "var", "C", "ff", "rf", "LT", "Eq", "Ne", "Lt"]
DFORM = ["dfoo_dt", "d_dt", "dx_dt2", "ddx_dt_dt", "dy_dt_x", "d2", "dt_dt"]
GRAM = ["states", "parameters", "expressions", "component", "Conditional", "ContinuousConditional", "ScalarParam", "unit", "description", "And", "Or", "Not", "Gt", "Ge", "Le", "ln", "acos", "e", "E1", "e2", "x1e5"]
import string
LETTERS = list(string.ascii_lowercase) + list(string.ascii_uppercase) + ["_", "__", "_x", "x_", "n0", "N_", "x0", "x1", "x2", "x3", "_0", "tmp", "tmp0", "cse0"]
FRESH = {"state": "fresh_s", "parameter": "fresh_p", "intermediate": "fresh_i"}


def alphabet():
    seen, out = set(), []
    for grp, lst in (("letters", LETTERS), ("gen", GEN), ("derived", DERIVED), ("py", PY), ("c", CKW), ("cmath", CMATH), ("truefalse", TF), ("sympy", SYM), ("dform", DFORM), ("grammar", GRAM)):
        for n in lst:
            if n not in seen:
                seen.add(n)
                out.append((grp, n))
    return out


def template(role, ident, variant="plain"):
    n, v = L.num, L.var
    if variant == "cse":
        # an assignment with a repeated sub-expression that does not mention the identifier, evaluated before the identifier is read
        names = {"state": "x", "parameter": "p", "intermediate": "i"}
        names[role] = ident
        x, p, i = names["state"], names["parameter"], names["intermediate"]
        eqy = L.call("exp", L.bin_("*", v("q"), v("y")))
        assigns = [("gate", L.bin_("/", eqy, L.bin_("+", n("1.0"), eqy))), (i, L.bin_("+", L.bin_("*", n("0.5"), v(x)), v(p))),
                   ("gate2", L.bin_("*", L.call("sin", L.bin_("+", v("y"), v("q"))), L.bin_("+", n("2"), L.call("sin", L.bin_("+", v("y"), v("q")))))),
                   (f"d{x}_dt", L.bin_("-", L.bin_("*", v("gate"), v(i)), L.bin_("*", v(x), v("y")))),
                   ("dy_dt", L.bin_("-", L.bin_("*", v(p), v(x)), L.bin_("*", L.bin_("*", n("0.75"), v("y")), v("gate2"))))]
        return models.spec([(x, n("1.0")), ("y", n("2.0"))], [(p, n("0.5")), ("q", n("1.5"))], assigns)
    if variant == "rels":
        # the identifier as an operand of every kind of relation (Eq, Not Eq, Le, Ge; nested in arithmetic and at top level) and as a
        # function argument / base of a power
        names = {"state": "x", "parameter": "p", "intermediate": "i"}
        names[role] = ident
        x, p, i = names["state"], names["parameter"], names["intermediate"]
        assigns = [(i, L.bin_("+", L.cond(L.rel("Eq", v(x), v(p)), n("2"), L.bin_("*", n("0.5"), v(x))), v(p))),
                   (f"d{x}_dt", L.bin_("-", L.bin_("*", L.cond(("not", L.rel("Eq", v(i), L.bin_("+", v(p), n("2")))), v(i), v("q")), L.call("exp", L.neg(L.call("abs", v(p))))), L.bin_("*", v(x), v("y")))),
                   ("dy_dt", L.cond(L.rel("Le", v(p), v("y")), L.bin_("-", L.bin_("**", v(x), n("2")), v("y")), L.cond(L.rel("Ge", v(i), v(x)), v(i), L.neg(v("y")))))]
        return models.spec([(x, n("1.0")), ("y", n("2.0"))], [(p, n("0.5")), ("q", n("1.5"))], assigns)
    if variant == "cond":
        # every assignment is a top-level Conditional (the printers have a dedicated path for `name = Piecewise(...)`)
        names = {"state": "x", "parameter": "p", "intermediate": "i"}
        names[role] = ident
        x, p, i = names["state"], names["parameter"], names["intermediate"]
        assigns = [(i, L.cond(L.rel("Gt", v(x), n("0")), v(p), L.neg(v(p)))),
                   (f"d{x}_dt", L.cond(L.rel("Lt", v(i), n("1")), L.bin_("*", v(i), v("q")), L.neg(v(x)))),
                   ("dy_dt", L.cond(L.rel("Ge", v("y"), v(x)), L.bin_("-", v(p), v("y")), v(i)))]
        return models.spec([(x, n("1.0")), ("y", n("2.0"))], [(p, n("0.5")), ("q", n("1.5"))], assigns)
    names = {"state": "x", "parameter": "p", "intermediate": "i"}
    names[role] = ident
    x, p, i = names["state"], names["parameter"], names["intermediate"]
    assigns = [(i, L.bin_("+", L.bin_("*", n("0.5"), v(x)), v(p))),
               (f"d{x}_dt", L.bin_("-", L.bin_("*", v(i), v("q")), L.bin_("*", v(x), v("y")))),
               ("dy_dt", L.bin_("-", L.cond(("and", L.rel("Gt", v(x), n("0")), L.rel("Lt", v(i), n("3"))), L.bin_("*", v(p), v(x)), v(i)), L.bin_("*", n("0.75"), v("y"))))]
    return models.spec([(x, n("1.0")), ("y", n("2.0"))], [(p, n("0.5")), ("q", n("1.5"))], assigns)


_recorded = {}


def recorded_collisions():
    """(identifier, role, backend) -> the key under which known_findings.json records that collision (read-only)"""
    if not _recorded:
        import json, os
        root = os.path.dirname(os.path.dirname(os.path.abspath(__file__)))
        for e in json.load(open(os.path.join(root, "known_findings.json"))):
            if e.get("property") == ID and e.get("status") == "known":
                parts = e["key"].split("|")
                if len(parts) >= 5:
                    _recorded.setdefault((parts[1], parts[2], parts[3]), e["key"])
        _recorded[None] = None
    return _recorded


def bounds(tier):
    return {"identifiers": len(alphabet()), "roles": ["state", "parameter", "intermediate"], "backends": ["numpy", "c", "jax"], "functions": list(FUNCS)}


def items(tier):
    its = []
    for grp, ident in alphabet():
        for role in ("state", "parameter", "intermediate"):
            its.append({"key": f"{grp}|{ident}|{role}", "kind": "ident", "ident": ident, "role": role, "group": grp, "variant": "plain",
                        "sample": {"identifier": ident, "role": role, "text": models.spec_text(template(role, ident))}})
            if grp in ("py", "c", "cmath", "truefalse", "sympy", "grammar", "gen") or ident in ("t", "e", "E", "I", "S", "N", "O", "Q", "C", "n"):
                its.append({"key": f"{grp}|{ident}|{role}|rels", "kind": "ident", "ident": ident, "role": role, "group": grp, "variant": "rels",
                            "sample": {"identifier": ident, "role": role, "variant": "rels", "text": models.spec_text(template(role, ident, "rels"))}})
                its.append({"key": f"{grp}|{ident}|{role}|cond", "kind": "ident", "ident": ident, "role": role, "group": grp, "variant": "cond",
                            "sample": {"identifier": ident, "role": role, "variant": "cond", "text": models.spec_text(template(role, ident, "cond"))}})
    return its


def evaluate(mod, ref, rename):
    """-> {(fname, name): [values over the grid]} ; names are mapped through `rename`"""
    out = {}
    sidx = {n: mod.index("state", n) for n in ref.states}
    pidx = {n: mod.index("parameter", n) for n in ref.params}
    midx = {n: mod.index("monitor", n) for n in ref.monitors}
    for pt in GRID:
        s = [0.0] * len(sidx)
        for n, i in sidx.items():
            s[i] = pt[rename.get(n, n)]
        p = [0.0] * len(pidx)
        for n, i in pidx.items():
            p[i] = pt[rename.get(n, n)]
        for fname in FUNCS:
            dt = None if fname in ("rhs", "monitor_values") else 0.125
            vals, _, _ = mod.call(fname, pt["t"], s, p, dt=dt)
            idx = midx if fname == "monitor_values" else sidx
            if len(vals) != len(idx):
                raise ValueError(f"{fname} returned {len(vals)} values for {len(idx)} names")
            for n, i in idx.items():
                out.setdefault((fname, rename.get(n, n)), []).append(vals[i])
    return out


GRID = [dict(zip(("t", "S", "y", "P", "q"), tup)) for tup in __import__("itertools").product((0.0, 0.5), (-1.0, 0.5, 2.0), (-0.5, 1.0), (0.5, 2.0), (1.5,))]
_fresh = {}
_shape_fresh = {}


def shape_fresh(role, shp):
    if (role, shp) not in _shape_fresh:
        sp = template(role, FRESH[role])
        ref = models.Ref(sp)
        _shape_fresh[(role, shp)] = models.build(models.spec_text(sp), "numpy", scheme=list(models.SCHEMES), stiff_states=[ref.states[0]], shape=shp)
    return _shape_fresh[(role, shp)]


def fresh_values(role, backend, variant="plain"):
    k = (role, backend, variant)
    if k not in _fresh:
        sp = template(role, FRESH[role], variant)
        ref = models.Ref(sp)
        mod = models.build(models.spec_text(sp), backend, scheme=list(models.SCHEMES), stiff_states=[ref.states[0]])
        _fresh[k] = evaluate(mod, ref, canon_map(role, FRESH[role]))
    return _fresh[k]


def canon_map(role, ident):
    """model name -> canonical grid/slot name"""
    names = {"state": "x", "parameter": "p", "intermediate": "i"}
    names[role] = ident
    return {names["state"]: "S", f"d{names['state']}_dt": "dS_dt", names["parameter"]: "P", names["intermediate"]: "I", "y": "y", "q": "q", "dy_dt": "dy_dt"}


def run_item(item):
    drive.gx()
    import checks.c03 as c03
    c03._jax_env()
    res = c01.new_res()
    res["states"] = 1
    ident, role = item["ident"], item["role"]
    variant = item.get("variant", "plain")
    sp = template(role, ident, variant)
    text = models.spec_text(sp)
    ref = models.Ref(sp)
    cm = canon_map(role, ident)
    accepted = False
    for backend in ("numpy", "c", "jax"):
        def fail(cls, what):
            fk = f"{ID}|{ident}|{role}|{backend}|{cls}" + ("|" + variant if variant in ("cond", "rels") else "")
            if variant == "rels":
                # the recorded finding is the (identifier, role, backend) collision; the `rels` template shows the same collision through
                # other expressions (possibly as another failure class), so it is reported under the key already on record for that triple
                fk = recorded_collisions().get((ident, role, backend), fk)
            res["failures"].append({"finding": fk, "what": f"identifier `{ident}` as {role} ({backend}): {what}", "size": len(ident),
                                    "detail": {"text": text, "backend": backend}})
        try:
            mod = models.build(text, backend, scheme=list(models.SCHEMES), stiff_states=[ref.states[0]])
        except models.StageError as ex:
            res["outcomes"].append(f"{backend}:{ex.stage}-error")
            res["transitions"] += 1
            if ex.stage in ("exec", "compile"):
                # generation "succeeded" but the module cannot be imported / compiled: neither of the two outcomes the property allows
                accepted = True
                fail("broken-module", f"code is generated without an error but the module does not {'compile' if ex.stage == 'compile' else 'import'}: {' '.join(str(ex).split())[:160]}")
            continue
        accepted = True
        res["transitions"] += 3
        try:
            got = evaluate(mod, ref, cm)
        except Exception as ex:
            fail("run-time-exception", f"generated code raises {type(ex).__name__}: {' '.join(str(ex).split())[:160]}")
            continue
        want = fresh_values(role, backend, variant)
        res["traces"] += len(GRID)
        diff = None
        for k, vals in want.items():
            g = got.get(k)
            if g is None:
                diff = f"{k} missing"
                break
            for a, b in zip(vals, g):
                res["evaluations"] += 1
                if not (a == b or (a != a and b != b) or abs(a - b) <= 1e-12 * max(1.0, abs(a))):
                    diff = f"{k[0]}[{k[1]}] = {b!r}, with the fresh name {a!r}"
                    break
            if diff:
                break
        if diff:
            fail("silently-different", diff)
        res["outcomes"].append(f"{backend}:{'differs' if diff else 'equal'}")
        if backend == "numpy" and not diff and variant == "plain":
            # rhs / monitor_values generated through the CodeGenerator API with use_cse=True (temporaries must not collide with model names)
            try:
                from gotranx.codegen import PythonCodeGenerator
                from gotranx.codegen.python import Format as PF
                outs = []
                for sp_, r_, c_ in ((template(role, ident, "cse"), None, cm), (template(role, FRESH[role], "cse"), None, canon_map(role, FRESH[role]))):
                    r_ = r_ or models.Ref(sp_)
                    ode_ = drive.load(models.spec_text(sp_))
                    cg = PythonCodeGenerator(ode_, format=PF.none)
                    ns_ = {}
                    exec("\n".join([cg.imports(), cg.parameter_index(), cg.state_index(), cg.monitor_index(), cg.rhs(use_cse=True), cg.monitor_values(use_cse=True)]), ns_)
                    vals_ = {}
                    for pt in GRID[::4]:
                        S = numpy.zeros(len(ns_["state"]))
                        for n_, i_ in ns_["state"].items():
                            S[i_] = pt[c_.get(n_, n_)]
                        P = numpy.zeros(len(ns_["parameter"]))
                        for n_, i_ in ns_["parameter"].items():
                            P[i_] = pt[c_.get(n_, n_)]
                        with numpy.errstate(all="ignore"):
                            rr, mm = ns_["rhs"](pt["t"], S, P), ns_["monitor_values"](pt["t"], S, P)
                        for n_, i_ in ns_["state"].items():
                            vals_.setdefault(("rhs", c_.get(n_, n_)), []).append(float(rr[i_]))
                        for n_, i_ in ns_["monitor"].items():
                            vals_.setdefault(("monitor", c_.get(n_, n_)), []).append(float(mm[i_]))
                    outs.append(vals_)
                a_, b_ = outs
                for k_ in b_:
                    res["evaluations"] += 1
                    if k_ not in a_ or any(not (u_ == v_ or (u_ != u_ and v_ != v_) or abs(u_ - v_) <= 1e-12 * max(1.0, abs(v_))) for u_, v_ in zip(a_[k_], b_[k_])):
                        fail("silently-different-use_cse", f"{k_[0]}[{k_[1]}] generated with use_cse=True differs from the model with the fresh name")
                        break
            except Exception as ex:
                fail("run-time-exception-use_cse", f"use_cse=True: {type(ex).__name__}: {' '.join(str(ex).split())[:140]}")
            # the shape option changes the generated prologue of monitor_values: same comparison under shape=single / multiple
            for shp in ("single", "multiple"):
                try:
                    ms = models.build(text, "numpy", scheme=list(models.SCHEMES), stiff_states=[ref.states[0]], shape=shp)
                    mf = shape_fresh(role, shp)
                    sp_f = template(role, FRESH[role], variant)
                    rf = models.Ref(sp_f)
                    cmf = canon_map(role, FRESH[role])
                    for pt in GRID[::3]:
                        outs = []
                        for m_, r_, c_ in ((ms, ref, cm), (mf, rf, cmf)):
                            sidx = {n: m_.index("state", n) for n in r_.states}
                            pidx = {n: m_.index("parameter", n) for n in r_.params}
                            midx = {n: m_.index("monitor", n) for n in r_.monitors}
                            S = numpy.zeros((len(sidx), 3)) if shp == "multiple" else numpy.zeros(len(sidx))
                            for n, i in sidx.items():
                                S[i] = pt[c_.get(n, n)]
                            P = numpy.zeros(len(pidx))
                            for n, i in pidx.items():
                                P[i] = pt[c_.get(n, n)]
                            with numpy.errstate(all="ignore"):
                                mon = numpy.asarray(m_.ns["monitor_values"](pt["t"], S, P), dtype=float)
                            outs.append({c_.get(n, n): (float(mon[i][0]) if shp == "multiple" else float(mon[i])) for n, i in midx.items()})
                        res["evaluations"] += 1
                        a, b = outs
                        bad_ = [k for k in b if not (a.get(k) == b[k] or (a.get(k) != a.get(k) and b[k] != b[k]) or abs(a.get(k, 1e300) - b[k]) <= 1e-12 * max(1.0, abs(b[k])))]
                        if bad_:
                            fail(f"silently-different-shape-{shp}", f"monitor_values[{bad_[0]}] = {a.get(bad_[0])!r} with shape={shp}, with the fresh name {b[bad_[0]]!r}")
                            break
                except Exception as ex:
                    fail(f"run-time-exception-shape-{shp}", f"shape={shp}: {type(ex).__name__}: {' '.join(str(ex).split())[:140]}")
    if accepted:
        res["nontrivial"] = 1
    return res
