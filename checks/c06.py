"""C06 - the generalized Rush-Larsen step follows the guarded exponential-integrator formula.

Rate family (affine rates with coefficient/offset drawn from literal, parameter, other state, x-dependent intermediate;
every function / conditional shape in the own state) x delta {1e-8, 2^-10, 0.5} x dt {2^-20, 0.125, 1} x backends x an input
grid that contains g = 0 and |g| just below / just above delta.  Oracle: g by forward-mode dual numbers on the reference
AST (every other name held fixed); expected x + f/g (exp(g dt) - 1) if |g| > delta else x + dt f.  Also: finite output
whenever f and g are finite, exactness for affine rates against the closed form, convergence to Euler on the dt ladder.
"""
from __future__ import annotations

import math

from mc import drive, lang as L, enumerate as E, models
from checks import c01

ID = "C06"
LEVEL = "model_checking"
DELTAS = (1e-8, 2.0 ** -10, 0.5, 0.0)
DTS = (2.0 ** -20, 0.125, 1.0)
RULE = ("every rate-family model x delta x dt x backend {numpy, c, jax}: generalized_rush_larsen generated through get_code is called on the "
        "full Cartesian grid (extended per delta with delta(1 -/+ 2^-10) so the guard is crossed) and compared per state with the "
        "guarded formula evaluated with an independent forward-mode differentiator; E3 affine models are covered through C02/C03/C04 "
        "whose module oracle uses the same formula. Non-trivial = rate with both guard outcomes or >= 2 distinct expected values.")
ASSUMPTIONS = ["gcc/ctypes/jax trusted", "finite grid", "points where |g| is within 1e-9 relative of delta are skipped (guard boundary)",
               "tolerance 1e-9 relative plus the exp(z)-1 cancellation allowance"]
ITEM_BUDGET_S = 1800


def bounds(tier):
    return {"rates": len(models.rate_family()), "deltas": list(DELTAS), "dts": list(DTS), "backends": ["numpy", "c", "jax"]}


def pair_specs():
    """two-state models: a state whose guard may be skipped / whose rate is degenerate, next to a probe state whose g crosses 0 and delta;
    both name orders, so that either state comes first in the generator's loop"""
    n, v = L.num, L.var
    U = {"gate(1-u)/p": lambda u: L.bin_("/", L.bin_("-", n("1"), v(u)), v("p")), "log(u)": lambda u: L.call("log", v(u)), "1/u": lambda u: L.bin_("/", n("1"), v(u)),
         "2u+1": lambda u: L.bin_("+", L.bin_("*", n("2"), v(u)), n("1")), "zero": lambda u: n("0"), "only-in-condition": lambda u: L.cond(L.rel("Gt", v(u), n("0")), n("1"), L.neg(n("1"))),
         "u*u": lambda u: L.bin_("*", v(u), v(u)), "-u/4": lambda u: L.bin_("/", L.neg(v(u)), n("4"))}
    W = {"p*w+1": lambda w, u: L.bin_("+", L.bin_("*", v("p"), v(w)), n("1")), "w*w": lambda w, u: L.bin_("*", v(w), v(w)), "cos(w)/p": lambda w, u: L.bin_("/", L.call("cos", v(w)), v("p")),
         "c-p*w*w": lambda w, u: L.bin_("-", n("1.5"), L.bin_("*", L.bin_("*", v("p"), v(w)), v(w))), "-w/(1+u*u)*p": lambda w, u: L.bin_("*", L.bin_("/", L.neg(v(w)), L.bin_("+", n("1"), L.bin_("*", v(u), v(u)))), v("p"))}
    out = []
    for un, uf in U.items():
        for wn, wf in W.items():
            for u, w in (("a", "z"), ("z", "a")):
                sp = models.spec([(u, n("1.0")), (w, n("2.0"))], [("p", n("0.5"))], [(f"d{u}_dt", uf(u)), (f"d{w}_dt", wf(w, u))])
                out.append((f"pair|{un}|{wn}|{u}{w}", sp))
    return out


def items(tier):
    its = []
    for key in ("rate|x**2", "rate|gate", "rate|cos(x)/p", "rate|abs(x)"):
        its.append({"key": f"api-reuse|{key}", "kind": "api-reuse", "name": key, "spec": dict(models.rate_specs())[key], "tier": tier,
                    "sample": {"rate": key, "what": "one CodeGenerator instance, scheme() called for every delta / stiff set in sequence"}})
    # every ordered list of 1..3 distinct schemes in ONE get_code call, with a non-default delta: what a scheme function computes must
    # not depend on which other schemes were requested next to it, or in which order
    import itertools as _it
    for key in ("rate|x**2", "rate|gate", "rate|cos(x)/p", "rate|fhn"):
        sp = dict(models.rate_specs())[key]
        for r in (1, 2, 3):
            for lst in _it.permutations(models.SCHEMES, r):
                its.append({"key": f"scheme-list|{key}|{'+'.join(lst)}", "kind": "scheme-list", "name": key, "spec": sp, "schemes": list(lst), "tier": tier,
                            "sample": {"rate": key, "scheme_list": list(lst), "delta": 0.5}})
    for key, sp in pair_specs():
        for delta in DELTAS:
            its.append({"key": f"{key}|delta={delta!r}", "kind": "rate", "name": key, "spec": sp, "delta": delta, "tier": tier,
                        "sample": {"rate": key, "delta": delta, "text": models.spec_text(sp)}})
    for key, sp in models.rate_specs():
        for delta in DELTAS:
            its.append({"key": f"{key}|delta={delta!r}", "kind": "rate", "name": key, "spec": sp, "delta": delta, "tier": tier,
                        "sample": {"rate": key, "delta": delta, "text": models.spec_text(sp)}})
    return its


def grid(ref, delta):
    d0 = delta
    delta = delta if delta > 0 else 2.0 ** -30  # for delta = 0 probe g = 0 exactly and |g| tiny
    if ref.states[0] in ("a", "z"):
        import itertools as _it
        vs = sorted({-2.0, -0.5, 0.0, 1.0, 3.0, 0.5, delta * (1 - 2.0 ** -10), delta * (1 + 2.0 ** -10), -delta * (1 + 2.0 ** -10)})
        return [dict(zip(["t"] + list(ref.states) + ["p"], tup)) for tup in _it.product((0.0,), vs, vs, (-2.0, -0.5, 0.5, 1.0, delta * (1 + 2.0 ** -10)))]
    vals = sorted(set(E.V5) | {delta * (1 - 2.0 ** -10), delta * (1 + 2.0 ** -10), -delta * (1 + 2.0 ** -10), 0.5, 1.0} if True else ())
    import itertools
    names = ["t"] + list(ref.states) + ["p"]
    pts = []
    for tup in itertools.product((0.0, 0.5), E.V5 + (0.5,), vals, vals):
        pts.append(dict(zip(names, tup)))
    return pts


def run_api_reuse(item, res):
    """the text a generator instance returns for (scheme, options) must not depend on what it was asked before"""
    from gotranx.codegen import PythonCodeGenerator, CCodeGenerator, JaxCodeGenerator
    from gotranx.codegen.python import Format as PF
    from gotranx.codegen.c import Format as CF
    from gotranx.schemes import get_scheme
    key, sp = item["name"], item["spec"]
    text = models.spec_text(sp)
    ode = drive.load(text)
    mk = {"numpy": lambda: PythonCodeGenerator(ode, format=PF.none), "jax": lambda: JaxCodeGenerator(ode, format=PF.none), "c": lambda: CCodeGenerator(ode, format=CF.none)}
    calls = [("generalized_rush_larsen", {"delta": d}) for d in DELTAS] + [("hybrid_rush_larsen", {"delta": d, "stiff_states": s_}) for d in (1e-8, 0.5) for s_ in (["x"], ["y"], [], ["x", "y"])]
    calls += [("explicit_euler", {})]
    for backend, make in mk.items():
        fresh = {}
        for i, (sn, kw) in enumerate(calls):
            fresh[i] = make().scheme(get_scheme(sn), **kw)
        for order in (list(range(len(calls))), list(reversed(range(len(calls))))):
            cg = make()
            for i in order:
                sn, kw = calls[i]
                got = cg.scheme(get_scheme(sn), **kw)
                res["transitions"] += 1
                res["evaluations"] += 1
                if got != fresh[i]:
                    res["failures"].append({"finding": f"{ID}|api-reuse|{backend}|scheme-text-depends-on-earlier-calls", "size": len(text),
                                            "what": f"{key}: CodeGenerator.scheme({sn}, {kw}) on an instance that generated other schemes before differs from a fresh instance", "detail": {"text": text, "call": [sn, kw]}})
                    break
        res["traces"] += 2
    res["nontrivial"] = 1


def run_item(item):
    drive.gx()
    import checks.c03 as c03
    c03._jax_env()
    res = c01.new_res()
    res["states"] = 1
    if item["kind"] == "api-reuse":
        run_api_reuse(item, res)
        return res
    if item["kind"] == "scheme-list":
        sp = item["spec"]
        stiff = [models.Ref(sp).states[0]]
        res["states"] = 0
        models.run_model_item({"specs": [[item["key"], sp]]}, res, ID, backends=("numpy", "c", "jax"), functions=tuple(item["schemes"]),
                              opts={"scheme": list(item["schemes"]), "delta": 0.5, "stiff_states": stiff})
        return res
    key, sp, delta, tier = item["name"], item["spec"], item["delta"], item.get("tier", "quick")
    text = models.spec_text(sp)
    ref = models.Ref(sp)
    pts = grid(ref, delta)
    fname = "generalized_rush_larsen"

    def fail(cls, backend, what, detail=None):
        res["failures"].append({"finding": f"{ID}|{key}|{backend}|{cls}", "what": f"{key} delta={delta}: {what}", "size": len(text),
                                "detail": dict(detail or {}, text=text, delta=delta, backend=backend)})
    outcomes = set()
    vals = set()
    for backend in ("numpy", "c", "jax"):
        try:
            mod = models.build(text, backend, scheme=[fname, "explicit_euler"], delta=delta)
        except models.StageError as ex:
            fail(f"{ex.stage}-error", backend, f"scheme generation / build fails: {ex}")
            continue
        res["transitions"] += 3
        sidx = {n: mod.index("state", n) for n in ref.states}
        pidx = {n: mod.index("parameter", n) for n in ref.params}
        bad = {}
        for pt in pts:
            s = [0.0] * 2
            for n, i in sidx.items():
                s[i] = pt[n]
            p = [pt["p"]]
            evl = ref.evaluator(pt)
            for dt in DTS:
                q = dict(pt, dt=dt)
                try:
                    out = mod.call(fname, pt["t"], s, p, dt=dt)[0]
                except Exception as ex:
                    bad.setdefault("raises", (q, repr(ex)[:200]))
                    continue
                res["transitions"] += 1
                for st in ref.states:
                    try:
                        v, tl = ref.expected(fname, q, st, delta=delta, evl=evl)
                        fv, g = ref.g(pt, st, evl)
                    except L.Skip as sk:
                        res["skipped"][sk.reason] = res["skipped"].get(sk.reason, 0) + 1
                        continue
                    if not math.isfinite(v):
                        continue
                    res["evaluations"] += 1
                    got = out[sidx[st]]
                    outcomes.add((st, abs(g) > delta))
                    vals.add(round(v, 9))
                    sfx = f"|state={st}" if key.startswith("pair|") else ""
                    if not math.isfinite(got):
                        bad.setdefault("non-finite" + sfx, (q, f"{st}: got {got!r} although f={fv!r} and g={g!r} are finite (expected {v!r})"))
                    elif not abs(got - v) <= tl:
                        # diagnosis: is the other branch of the guard what was returned?
                        f0 = ref.value(evl, f"d{st}_dt")[0]
                        other = pt[st] + dt * f0 if abs(g) > delta else (pt[st] + f0 / g * (math.exp(g * dt) - 1.0) if g != 0 else float("nan"))
                        if other == other and abs(got - other) <= max(tl, 1e-9 * max(abs(other), 1.0)):
                            bad.setdefault("delta-not-honoured" + sfx, (q, f"{st}: |g|={abs(g)!r} {'>' if abs(g) > delta else '<='} delta but the {'Euler' if abs(g) > delta else 'Rush-Larsen'} branch was returned: got {got!r}, expected {v!r}"))
                        else:
                            bad.setdefault("wrong-value" + sfx, (q, f"{st}: got {got!r}, expected {v!r} (f={fv!r}, g={g!r}, tol={tl:.3g})"))
            res["traces"] += 1
        for cls, (pt, msg) in sorted(bad.items()):
            fail(cls, backend, f"{msg} at {pt}", {"point": pt})
    res["outcomes"] = [f"{key}:{o}" for o in sorted(outcomes)]
    if len(outcomes) >= 3 or len(vals) >= 2:
        res["nontrivial"] += 1
    return res
