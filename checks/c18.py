"""C18 - the command line writes what the API generates and honours its options.

In-process through typer.testing.CliRunner on gotranx.cli.app in a scratch working directory, with a harness-owned formatter seam for C
(a stub clang_format_docs module, so that the C formatter is observable and independent of PATH) and the real black for Python; one
subprocess `python -m gotranx` run per sub-command as a conformance check of the in-process driver.
Enumerated: sub-command {ode2py, ode2c, convert, cellml2ode} x every single option value and every PAIR of option values (quick; triples in
thorough) over: scheme list, stiff states, delta, --remove-unused, formatter, backend, -o (absent / name / other directory), --to,
configuration (none / pyproject.toml in cwd / --config file; each documented key) x model {valid, invalid, unreadable syntax, missing}.
Oracle: the written bytes equal get_code(load_ode(f), <the same options>) computed through the API; the file has the requested name and
suffix; for an invalid / missing model: non-zero exit status and an unchanged directory listing.
"""
from __future__ import annotations

import itertools
import json
import os
import shutil
import subprocess
import sys
import tempfile

from mc import drive, lang as L, enumerate as E, models
from checks import c01

ID = "C18"
LEVEL = "model_checking"
RULE = ("every configuration with at most 2 (quick) / 3 (thorough) options departing from their defaults, per sub-command, plus the model fault cases; "
        "CLI run in-process (typer CliRunner) in a fresh scratch directory; written file compared byte-for-byte with the API result for the same "
        "options; directory listing and exit status checked. Non-trivial = invocation that wrote a file or was expected to fail.")
ASSUMPTIONS = ["typer's CliRunner is equivalent to the real entry point (one subprocess run per sub-command checks this)", "black is the real formatter; clang-format is a stub seam (not on PATH in this image)",
               "ruff is not installed and not exercised"]
ITEM_BUDGET_S = 1800

MODEL = "parameters(p=0.5, q=1.5)\nstates(x=1.0, y=2.0)\nunused = p*q\ni = 0.5*x + p\ndx_dt = i*q - x*y\ndy_dt = p*x - 0.75*y + i\n"
BAD_MODELS = {"invalid-missing-derivative": "parameters(p=0.5)\nstates(x=1.0, y=2.0)\ndx_dt = p - x\n",
              "invalid-undefined-symbol": "parameters(p=0.5)\nstates(x=1.0)\ndx_dt = nope - x\n",
              "invalid-syntax": "parameters(p=0.5\nstates(x=1.0)\ndx_dt = = x\n",
              # loads, but code generation refuses it (cyclic intermediates)
              "invalid-cycle": "parameters(p=0.5)\nstates(x=1.0)\na = b + p\nb = a*x\ndx_dt = b - x\n"}

SCHEMES = [[], ["explicit_euler"], ["generalized_rush_larsen"], ["hybrid_rush_larsen"], ["forward_explicit_euler"], ["forward_generalized_rush_larsen"],
           ["explicit_euler", "generalized_rush_larsen"], ["generalized_rush_larsen", "explicit_euler"], ["hybrid_rush_larsen", "explicit_euler"],
           ["explicit_euler", "generalized_rush_larsen", "hybrid_rush_larsen"]]
# where the model file lives relative to the working directory of the command (a relative -o name is relative to the working directory)
WHERE = [None, "model-in-subdir", "cwd-in-subdir"]
DIMS = {
    "ode2py": {"scheme": SCHEMES, "stiff": [[], ["x"], ["x", "y"], ["y", "nope"]], "delta": [None, 0.5], "ru": [False, True], "format": [None, "none", "black"],
               "backend": [None, "numpy", "jax"], "out": [None, "result", "sub/other.py", "name.with.dots"], "verbose": [False, True], "where": WHERE,
               "config": [None, ("cwd", {"delta": 0.25}), ("file", {"delta": 0.25}), ("cwd", {"scheme": ["generalized_rush_larsen"]}), ("cwd", {"stiff_states": ["y"], "scheme": ["hybrid_rush_larsen"]}),
                          ("cwd", {"python": {"format": "none"}}), ("cwd", {"python": {"backend": "jax"}}), ("file", {"verbose": True}), ("cwd", {"c": {"format": "none", "to": ".c"}}), ("file", {"stiff_states": ["x"], "scheme": ["hybrid_rush_larsen", "explicit_euler"]}),
                          ("file", {"delta": 0.125, "scheme": ["generalized_rush_larsen"]}), ("file", {"python": {"format": "none", "backend": "jax"}}),
                          # falsy values in the configuration still override the command line (documented: the file wins)
                          ("cwd", {"delta": 0.0}), ("file", {"scheme": []}), ("cwd", {"stiff_states": []}), ("file", {"verbose": False})]},
    "ode2c": {"scheme": SCHEMES, "stiff": [[], ["x"], ["x", "y"]], "delta": [None, 0.5], "ru": [False, True], "format": [None, "none", "clang-format"],
              "to": [None, ".h", ".c"], "out": [None, "result", "sub/other.h"], "verbose": [False, True], "where": WHERE,
              "config": [None, ("cwd", {"delta": 0.25}), ("file", {"scheme": ["explicit_euler"]}), ("cwd", {"c": {"format": "none"}}), ("cwd", {"c": {"to": ".c"}}), ("cwd", {"c": {"format": "clang-format"}}),
                         ("cwd", {"python": {"format": "none"}}), ("cwd", {"stiff_states": ["y"], "scheme": ["hybrid_rush_larsen"]}), ("file", {"stiff_states": ["x"], "scheme": ["hybrid_rush_larsen", "explicit_euler"]}),
                         ("file", {"verbose": True}), ("file", {"delta": 0.125, "scheme": ["generalized_rush_larsen"]}),
                         ("cwd", {"delta": 0.0}), ("file", {"scheme": []}), ("cwd", {"stiff_states": []})]},
    "convert": {"to": [".py", ".c", ".h", "py", "c"], "scheme": [[], ["explicit_euler"], ["hybrid_rush_larsen"], ["explicit_euler", "generalized_rush_larsen"]], "stiff": [[], ["x"]], "delta": [None, 0.5],
                "ru": [False, True], "jax": [False, True], "out": [None, "result.py", "result.c", "result"], "where": WHERE},
}


def toml(d, prefix="tool.gotranx"):
    lines = [f"[{prefix}]"]
    subs = []
    for k, v in d.items():
        if isinstance(v, dict):
            subs.append((k, v))
        else:
            lines.append(f"{k} = {json.dumps(v)}")
    for k, v in subs:
        lines += ["", toml(v, f"{prefix}.{k}")]
    return "\n".join(lines) + "\n"


def configs(cmd, maxdev):
    dims = DIMS[cmd]
    names = list(dims)
    default = {n: dims[n][0] for n in names}
    out = [dict(default)]
    for r in range(1, maxdev + 1):
        for combo in itertools.combinations(names, r):
            for vals in itertools.product(*[dims[n][1:] for n in combo]):
                cfg = dict(default)
                cfg.update(zip(combo, vals))
                out.append(cfg)
    return out


def bounds(tier):
    md = 2 if tier == "quick" else 3
    return {"max_options_departing_from_default": md, **{c: len(configs(c, md if c != "convert" else min(md, 2))) for c in DIMS}}


def items(tier):
    md = 2 if tier == "quick" else 3
    its = []
    for cmd in DIMS:
        cs = configs(cmd, md if cmd != "convert" else min(md, 2))
        for i, ch in enumerate(E.chunks(cs, 10)):
            its.append({"key": f"{cmd}|{i:05d}", "kind": "cfg", "cmd": cmd, "cfgs": ch, "sample": {"cmd": cmd, "config": ch[-1]}})
    its.append({"key": "faults", "kind": "faults", "sample": {"models": list(BAD_MODELS)}})
    its.append({"key": "cellml2ode", "kind": "cellml", "sample": {"cmd": "cellml2ode"}})
    its.append({"key": "subprocess-conformance", "kind": "subprocess", "sample": {"cmd": "python -m gotranx ..."}})
    return its


def argv_for(cmd, cfg, model_path, cfgfile):
    a = [cmd, str(model_path)]
    for s in cfg.get("scheme") or []:
        a += ["--scheme", s]
    for s in cfg.get("stiff") or []:
        a += ["-s", s]
    if cfg.get("delta") is not None:
        a += ["--delta", str(cfg["delta"])]
    if cfg.get("ru"):
        a += ["--remove-unused"]
    if cfg.get("format") is not None:
        a += ["--format", cfg["format"]]
    if cfg.get("backend") is not None:
        a += ["--backend", cfg["backend"]]
    if cfg.get("out") is not None:
        a += ["-o", cfg["out"]]
    if cfg.get("to") is not None:
        a += ["--to", cfg["to"]]
    if cfg.get("verbose"):
        a += ["-v"]
    if cfg.get("jax"):
        a += ["--jax"]
    if cfgfile:
        a += ["--config", str(cfgfile)]
    return a


def expected(cmd, cfg, model_path, workdir):
    """-> (path, text) the API says should be written"""
    g = drive.gx()
    conf = cfg.get("config")
    cd = conf[1] if conf else {}
    scheme = cd.get("scheme", cfg.get("scheme") or [])
    stiff = cd.get("stiff_states", cfg.get("stiff") or [])
    delta = cd.get("delta", cfg.get("delta") if cfg.get("delta") is not None else 1e-8)
    ru = bool(cfg.get("ru"))
    ode = g.load.load_ode(model_path)
    lang = "py"
    if cmd == "ode2c":
        lang = "c"
    elif cmd == "convert":
        to = cfg.get("to") or os.path.splitext(cfg.get("out") or "")[1]
        lang = "c" if to in (".c", ".h", "c") else "py"
    if lang == "py":
        fmt = cd.get("python", {}).get("format", cfg.get("format") or "black") if cmd == "ode2py" else "black"
        backend = cd.get("python", {}).get("backend", cfg.get("backend") or "numpy") if cmd == "ode2py" else ("jax" if cfg.get("jax") else "numpy")
        text = drive.py_code(ode, scheme=scheme or (None if cmd == "convert" else []), remove_unused=ru, backend=backend, delta=delta, stiff_states=stiff or (None if cmd == "convert" else []), format=fmt)
        suffix = ".py" if cmd == "ode2py" else cfg.get("to")
    else:
        fmt = cd.get("c", {}).get("format", cfg.get("format") or "clang-format") if cmd == "ode2c" else "clang-format"
        text = drive.c_code(ode, scheme=scheme or (None if cmd == "convert" else []), remove_unused=ru, delta=delta, stiff_states=stiff or (None if cmd == "convert" else []), format=fmt)
        suffix = (cd.get("c", {}).get("to", cfg.get("to") or ".h")) if cmd == "ode2c" else cfg.get("to")
    out = cfg.get("out")
    base = os.path.join(workdir, out) if out else str(model_path)
    if cmd == "convert" and not cfg.get("to"):
        suffix = os.path.splitext(out)[1]
    from pathlib import Path
    path = str(Path(base).with_suffix(suffix if suffix.startswith(".") else suffix))
    return path, text


def listing(d):
    out = {}
    for root, _, files in os.walk(d):
        for f in files:
            p = os.path.join(root, f)
            out[os.path.relpath(p, d)] = open(p, "rb").read()
    return out


def invoke(args, cwd):
    g = drive.gx()
    from typer.testing import CliRunner
    import gotranx.cli
    import logging
    import structlog
    import warnings
    old = os.getcwd()
    os.chdir(cwd)
    try:
        with warnings.catch_warnings():
            warnings.simplefilter("ignore")
            r = CliRunner().invoke(gotranx.cli.app, args)
    finally:
        os.chdir(old)
        structlog.configure(wrapper_class=structlog.make_filtering_bound_logger(logging.CRITICAL))
    return r.exit_code, (r.output or "")[-500:], r.exception


def run_cfg(cmd, cfg, res, fail):
    with tempfile.TemporaryDirectory(prefix="gxc18-") as d:
        d = os.path.realpath(d)
        where = cfg.get("where")
        cwd = d
        model = os.path.join(d, "mymodel.ode")
        if where == "model-in-subdir":
            os.makedirs(os.path.join(d, "models"))
            model = os.path.join(d, "models", "mymodel.ode")
        elif where == "cwd-in-subdir":
            cwd = os.path.join(d, "work")
            os.makedirs(cwd)
        open(model, "w").write(MODEL)
        out = cfg.get("out")
        if out and "/" in out:
            os.makedirs(os.path.join(cwd, os.path.dirname(out)), exist_ok=True)
        cfgfile = None
        conf = cfg.get("config")
        if conf and conf[0] == "cwd" and where:
            res["skipped"]["project-root-config-with-model-elsewhere"] = res["skipped"].get("project-root-config-with-model-elsewhere", 0) + 1
            return
        if conf:
            if conf[0] == "cwd":
                # pyproject.toml is looked up from the project root (black's rule: a directory with .git), as in a real project
                os.makedirs(os.path.join(d, ".git"))
                open(os.path.join(d, "pyproject.toml"), "w").write(toml(conf[1]))
            else:
                os.makedirs(os.path.join(d, "cfgdir"))
                cfgfile = os.path.join(d, "cfgdir", "other.toml")
                open(cfgfile, "w").write(toml(conf[1]))
        before = listing(d)
        args = argv_for(cmd, cfg, model, cfgfile)
        code, output, exc = invoke(args, cwd)
        res["transitions"] += 1
        after = listing(d)
        new = {k: v for k, v in after.items() if k not in before or before[k] != v}
        try:
            path, text = expected(cmd, cfg, model, cwd)
        except Exception as ex:
            # the API itself rejects these options: the CLI must fail too and write nothing
            if code == 0 and new:
                fail("api-rejects-but-cli-writes", f"API raises {type(ex).__name__} for these options but the CLI exits 0 and writes {sorted(new)}", args)
            return
        rel = os.path.relpath(path, d)
        res["evaluations"] += 1
        res["traces"] += 1
        if code != 0:
            fail("cli-fails", f"exit status {code} ({type(exc).__name__ if exc else ''}: {str(exc)[:150] if exc else output[-150:]})", args)
            return
        if rel not in new:
            fail("output-file-missing-or-misnamed", f"expected to write {rel!r}; new/changed files: {sorted(new)}", args)
            return
        if len(new) != 1:
            fail("extra-files-written", f"expected only {rel!r}; new/changed files: {sorted(new)}", args)
        got = new[rel].decode()
        if got != text:
            la, lb = text.splitlines(), got.splitlines()
            i = next((j for j, (x, y) in enumerate(zip(la, lb)) if x != y), min(len(la), len(lb)))
            fail("bytes-differ-from-api", f"written file differs from the API result for the same options at line {i}: API {la[i] if i < len(la) else '<eof>'!r} vs CLI {lb[i] if i < len(lb) else '<eof>'!r}", args)


def run_item(item):
    g = drive.gx()
    res = c01.new_res()
    if item["kind"] == "cfg":
        cmd = item["cmd"]
        for cfg in item["cfgs"]:
            res["states"] += 1
            res["nontrivial"] += 1
            nd = [k for k, v in cfg.items() if v != DIMS[cmd][k][0]]

            def fail(cls, what, args, _cfg=cfg, _nd=nd):
                opts = ",".join(f"{k}={_cfg[k]!r}" if k != "config" else f"config={_cfg[k][1]!r}" for k in _nd)
                res["failures"].append({"finding": f"{ID}|{cmd}|{cls}|{'+'.join(sorted(_nd)) or 'defaults'}", "what": f"gotranx {' '.join(args[:1] + ['<model>'] + args[2:])}: {what}",
                                        "size": len(_nd) * 100 + len(opts), "detail": {"cmd": cmd, "config": _cfg, "argv": args},
                                        "replay_item": {"key": f"{cmd}|single|{opts}", "kind": "cfg", "cmd": cmd, "cfgs": [_cfg]}})
            run_cfg(cmd, cfg, res, fail)
        return res
    if item["kind"] == "faults":
        for cmd, extra in (("ode2py", []), ("ode2c", []), ("convert", ["--to", ".py"]), ("convert", ["--to", ".c"]), ("ode2py", ["--scheme", "explicit_euler", "-o", "out"])):
            for name, text in list(BAD_MODELS.items()) + [("missing-file", None)]:
                res["states"] += 1
                res["nontrivial"] += 1
                with tempfile.TemporaryDirectory(prefix="gxc18-") as d:
                    d = os.path.realpath(d)
                    model = os.path.join(d, "bad.ode")
                    if text is not None:
                        open(model, "w").write(text)
                    # an output of an earlier successful run must survive a failing run untouched
                    for nm in ("bad.py", "bad.h", "bad.c", "out.py"):
                        open(os.path.join(d, nm), "w").write("previous good output\n")
                    before = listing(d)
                    code, output, exc = invoke([cmd, model] + extra, d)
                    after = listing(d)
                    res["transitions"] += 1
                    res["evaluations"] += 1
                    res["traces"] += 1
                    key = f"{ID}|{cmd}{'+' + extra[1] if extra else ''}|{name}"
                    if code == 0:
                        res["failures"].append({"finding": key + "|exit-zero", "what": f"gotranx {cmd} on a {name} model exits with status 0", "size": 1, "detail": {"output": output}})
                    if after != before:
                        res["failures"].append({"finding": key + "|writes-output", "what": f"gotranx {cmd} on a {name} model writes {sorted(set(after) - set(before))}", "size": 1, "detail": {}})
        # invalid option values must be refused
        for cmd, extra in (("ode2py", ["--scheme", "not_a_scheme"]), ("ode2py", ["--backend", "fortran"]), ("ode2c", ["--format", "pretty"]), ("ode2py", ["--delta", "abc"])):
            res["states"] += 1
            with tempfile.TemporaryDirectory(prefix="gxc18-") as d:
                d = os.path.realpath(d)
                model = os.path.join(d, "m.ode")
                open(model, "w").write(MODEL)
                before = listing(d)
                code, output, exc = invoke([cmd, model] + extra, d)
                res["transitions"] += 1
                res["evaluations"] += 1
                if code == 0 or listing(d) != before:
                    res["failures"].append({"finding": f"{ID}|{cmd}|invalid-option-accepted|{extra[0]}", "what": f"gotranx {cmd} {' '.join(extra)} exits {code} / writes files", "size": 1, "detail": {}})
        return res
    if item["kind"] == "cellml":
        src = os.path.dirname(os.environ.get("GOTRANX_SRC", "/repo/src"))
        cell = os.path.join(src, "tests/cellml_files/noble_1962.cellml")
        import gotranx.myokit as gm
        for cmd, outs in (("cellml2ode", [None, "converted", "sub/converted.ode"]), ("convert", ["noble.ode"])):
            for out in outs:
                res["states"] += 1
                res["nontrivial"] += 1
                with tempfile.TemporaryDirectory(prefix="gxc18-") as d:
                    d = os.path.realpath(d)
                    f = os.path.join(d, "noble_1962.cellml")
                    shutil.copy(cell, f)
                    if out and "/" in out:
                        os.makedirs(os.path.join(d, os.path.dirname(out)))
                    args = [cmd, f] + (["-o", out] if out else []) + (["--to", ".ode"] if cmd == "convert" else [])
                    before = listing(d)
                    code, output, exc = invoke(args, d)
                    after = listing(d)
                    new = {k: v for k, v in after.items() if k not in before}
                    res["transitions"] += 1
                    res["evaluations"] += 1
                    res["traces"] += 1
                    want_path = os.path.relpath(os.path.join(d, out) if out else os.path.splitext(f)[0] + ".ode", d)
                    ref = os.path.join(d, "__api.ode")
                    gm.cellml_to_gotran(f).save(ref)
                    want = open(ref).read()
                    os.unlink(ref)
                    fk = f"{ID}|{cmd}|cellml|out={out}"
                    if code != 0:
                        res["failures"].append({"finding": fk + "|cli-fails", "what": f"gotranx {' '.join(args)} exits {code}: {exc!r}"[:300], "size": 1, "detail": {}})
                    elif list(new) != [want_path]:
                        res["failures"].append({"finding": fk + "|output-file-missing-or-misnamed", "what": f"expected {want_path!r}, new files {sorted(new)}", "size": 1, "detail": {}})
                    elif new[want_path].decode() != want:
                        res["failures"].append({"finding": fk + "|bytes-differ-from-api", "what": "written .ode differs from cellml_to_gotran(...).save(...)", "size": 1, "detail": {}})
        return res
    # subprocess conformance of the in-process driver
    for cmd, extra, suffix in (("ode2py", ["--format", "none", "--scheme", "explicit_euler"], ".py"), ("ode2c", ["--to", ".c", "--format", "none"], ".c")):
        res["states"] += 1
        with tempfile.TemporaryDirectory(prefix="gxc18-") as d:
            d = os.path.realpath(d)
            model = os.path.join(d, "m.ode")
            open(model, "w").write(MODEL)
            env = dict(os.environ, PYTHONPATH=os.environ.get("GOTRANX_SRC", "/repo/src"), PATH="/venv/bin:" + os.environ.get("PATH", ""))
            r = subprocess.run([sys.executable, "-m", "gotranx", cmd, model] + extra, cwd=d, env=env, capture_output=True, text=True, timeout=300)
            sub = listing(d)
            os.unlink(os.path.join(d, "m" + suffix)) if os.path.exists(os.path.join(d, "m" + suffix)) else None
            code, output, exc = invoke([cmd, model] + extra, d)
            inproc = listing(d)
            res["transitions"] += 2
            res["evaluations"] += 1
            res["traces"] += 1
            a, b = sub.get("m" + suffix), inproc.get("m" + suffix)
            if cmd == "ode2c":
                # the subprocess has no formatter stub: compare modulo the stub's marker line
                strip = lambda x: None if x is None else x.decode().replace("/*clang-format-stub*/\n", "")
                a, b = strip(a), strip(b)
                if r.returncode != 0 and "clang" in (r.stderr or ""):
                    res["skipped"]["subprocess-needs-clang-format"] = 1
                    continue
            if r.returncode != code or a != b:
                res["failures"].append({"finding": f"{ID}|harness|subprocess-vs-inprocess|{cmd}", "what": f"python -m gotranx {cmd}: exit {r.returncode} vs in-process {code}; files equal: {a == b}; stderr {r.stderr[-200:]!r}", "size": 1, "detail": {}})
    return res
