"""C09 - generated code and slot layout are reproducible across processes, hash seeds, set-iteration orders and histories.

Three exhaustive explorations, all on the real code:
 1. schedules (controlled)  - mc/sched.py owns the iteration order of every set/frozenset gotranx builds:
      * global orders: EVERY permutation of the model's name universe (<= 5 names: generated code compared; 6-7 names: names and slot layout compared), all sets iterate in that order;
      * per-object deviations: default = sorted order, a deviation = any other permutation of ONE iterated set object; all runs with
        <= 1 deviation (both tiers), CHESS-style, executions always run to completion.  (Two deviations were planned for the thorough
        tier; with ~60 iterated set objects of up to 4 elements per model that is ~10^6 executions per model and did not finish.)
    Invariant: bytes of gotran2py / gotran2c get_code (all schemes) and the names of sorted_states() / sorted_assignments() are identical
    on every schedule (and equal to the default-schedule run).
 2. schedules (real) - the same models plus the repository's .ode files in fresh subprocesses for every PYTHONHASHSEED in 0..31
    (0..127 thorough) and `random`; outputs byte-identical across seeds and equal to the controlled default-schedule output.
 3. histories - breadth-first search over sequences (depth <= 2 quick, 3 thorough) of earlier API operations; each history is replayed in a
    process forked from a pristine pre-imported parent; the final observation get_code(M, opts) must equal the fresh-process baseline.
"""
from __future__ import annotations

import hashlib
import itertools
import json
import os
import subprocess
import sys
import tempfile

from mc import drive, lang as L, enumerate as E, models, sched, child
from checks import c01

ID = "C09"
LEVEL = "model_checking"
RULE = ("(1) every global set-iteration order over the name universe and every run with <= k per-object deviations, for every family model; "
        "(2) every PYTHONHASHSEED of the stated range in a fresh subprocess, for the family and the repository's .ode files; (3) every history of "
        "API operations up to the stated depth, in a forked pristine process. Observation = sha256 of get_code (numpy + C, all schemes) and the "
        "sorted state/assignment names; it must be one single value per model. states = schedules + seeds + histories explored.")
ASSUMPTIONS = ["sets derived with | / union / comprehensions are builtin sets and are only covered by the real-hash-seed runs",
               "sympy's global cache is semantically transparent", "history states are canonicalised by the observation hash (stateless exploration: no merging)"]
ITEM_BUDGET_S = 3000


def family(tier):
    n, v = L.num, L.var
    out = []
    # the smallest model known to be schedule sensitive in the original tree + richer dependency sets
    out.append(("m-iq", models.spec([("a", n("1.0")), ("b", n("2.0"))], [("p", n("1.0")), ("q", n("2"))],
                                    [("i", L.bin_("+", v("p"), v("q"))), ("da_dt", v("p")), ("db_dt", v("q"))])))
    out.append(("m-3deps", models.spec([("x", n("1.0")), ("y", n("2.0")), ("z", n("0.5"))], [("p", n("0.5"))],
                                       [("i", L.bin_("+", L.bin_("+", v("x"), v("y")), L.bin_("*", v("z"), v("p")))), ("j", L.bin_("*", v("i"), v("y"))),
                                        ("dx_dt", L.bin_("-", v("j"), v("x"))), ("dy_dt", L.bin_("+", v("i"), v("p"))), ("dz_dt", L.bin_("*", v("y"), v("x")))])))
    out.append(("m-two-comp", models.spec([("x", n("1.0")), ("y", n("2.0"))], [("p", n("0.5")), ("q", n("1.5"))],
                                          [("a", L.bin_("*", v("p"), v("x"))), ("dx_dt", L.bin_("-", v("a"), v("x"))), ("b", L.bin_("+", v("a"), v("q"))), ("dy_dt", L.bin_("*", v("b"), v("y")))],
                                          comp={"x": "A", "p": "A", "a": "A", "dx_dt": "A", "y": "B", "q": "B", "b": "B", "dy_dt": "B"})))
    # names that collide under common normalisations (case, underscores): ties in any derived sort key fall back to set order
    out.append(("m-twin-names", dict(models.degenerate_specs())["deg|names-by-case"]))
    out.append(("m-twin-names-2", models.spec([("v", n("1.0")), ("V", n("2.0")), ("v_", n("0.5"))], [("Cm", n("1.0")), ("cm", n("2")), ("c_m", n("3"))],
                                             [("i_K", L.bin_("*", v("Cm"), v("v"))), ("I_K", L.bin_("*", v("cm"), v("V"))), ("iK", L.bin_("*", v("c_m"), v("v_"))),
                                              ("dv_dt", L.bin_("-", v("I_K"), v("i_K"))), ("dV_dt", L.bin_("+", v("iK"), v("i_K"))), ("dv__dt", L.bin_("*", v("I_K"), v("iK")))])))
    out.append(("m-time-dependent", dict(models.degenerate_specs())["deg|time-dependent"]))
    shapes = models.e3_shapes("quick")
    sel = [(k, s) for k, s in models.e3_specs("quick", variants=True)
           if len(shapes[int(k.split("|")[1])][0]) <= 2 and ("|n0|" in k or tier != "quick")]
    # every zero/one-intermediate shape whose dependency sets have 2 elements (set order can matter only then), plus the layout/unused variants
    def has_pair(k):
        sh = shapes[int(k.split("|")[1])]
        return any(len(d) >= 2 for d in sh[0]) or len(sh[1]) >= 2 or len(sh[2]) >= 2
    base = [(k, s) for k, s in sel if k.endswith("|def|flat|-") and has_pair(k) and len(shapes[int(k.split("|")[1])][0]) <= 1]
    var = [(k, s) for k, s in sel if not k.endswith("|def|flat|-")]
    if tier == "quick":
        base = base[:: max(1, len(base) // 8)][:8]
        var = [(k, s) for k, s in var if "|split|" in k or "chain" in k]
        var = var[:: max(1, len(var) // 6)][:6]
    else:
        # thorough: the same model family as quick (the full family of 1 368 base shapes + variants under the controlled scheduler did not
        # finish within 25 minutes in three attempts); the thorough tier widens the hash-seed range and the history depth instead
        base = base[:: max(1, len(base) // 8)][:8]
        var = [(k, s) for k, s in var if "|split|" in k or "chain" in k]
        var = var[:: max(1, len(var) // 6)][:6]
    return out + base + var


def observe(text, light=False):
    ode = drive.load(text)
    names = [a.name for a in ode.sorted_assignments()] + ["|"] + [s.name for s in ode.sorted_states()] + ["|"] + [p.name for p in ode.parameters]
    if light:
        return hashlib.sha256(json.dumps(names).encode()).hexdigest()[:16]
    py = drive.py_code(ode, scheme=list(models.SCHEMES), stiff_states=[s.name for s in ode.states][:1])
    c = drive.c_code(ode, scheme=list(models.SCHEMES), stiff_states=[s.name for s in ode.states][:1])
    return hashlib.sha256((json.dumps(names) + "\0" + py + "\0" + c).encode()).hexdigest()[:16]


def universe(sp):
    spn = models.norm(sp)
    return [n for n, _ in spn["states"] + spn["params"] + spn["assigns"]]


HIST_A = "parameters(p=1.0, q=2)\nstates(a=1.0, b=2.0)\ni = p + q\nda_dt = p*a - i\ndb_dt = q - b*a\n"
HIST_A2 = "parameters(p=1.0, q=2)\nstates(a=1.0, b=2.0)\ni = p - q\nda_dt = i - p*a\ndb_dt = q + b*a\n"  # same names, same dependency sets as HIST_A
HIST_B = "parameters(k=0.5)\nstates(x=1.0)\nw = x/(exp(x) - 1)\ndx_dt = k - w\n"
ALIASES = ["forward_euler", "forward_explicit_euler", "euler", "explicit_euler", "forward_generalized_rush_larsen", "generalized_rush_larsen", "forward_rush_larsen", "rush_larsen", "hybrid_rush_larsen"]


HIST_S = 'parameters("A", p=1.0)\nparameters("B", q=2.0)\nstates("A", a=1.0)\nstates("B", b=2.0)\nexpressions("A")\ni = p*a + b\nda_dt = i - a*q\nexpressions("B")\nj = q*b - i\ndb_dt = j*a + p\n'
# option objects that a caller naturally re-uses between calls (the library must not modify them)
SHARED = {"stiff": ["a"], "schemes": None, "missing": None}


def sub_models():
    ode = drive.load(HIST_S)
    comp = ode.get_component("A")
    return comp.to_ode(), ode - comp


def shared_missing():
    if SHARED["missing"] is None:
        A, B = sub_models()
        SHARED["missing"] = dict(B.missing_variables)
    return SHARED["missing"]


def history_ops():
    ops = ["loadA", "loadB", "pyA", "pyB", "cA", "jaxA", "failing-load", "remove-sing-B", "save-reload-A", "verbose-main", "sub-py-shared-options", "sub-c-shared-options", "matrices-B", "loadA-variant", "pyA-variant", "matrices-A-variant"]
    ops += [f"pyA+{s}" for s in models.SCHEMES] + [f"cA+{s}" for s in models.SCHEMES] + ["pyA+all", "pyA+ru"]
    ops += [f"get_scheme:{a}" for a in ALIASES]
    return ops


def do_op(op):
    g = drive.gx()
    import warnings
    warnings.simplefilter("ignore")
    if op == "loadA":
        drive.load(HIST_A)
    elif op == "loadB":
        drive.load(HIST_B)
    elif op == "pyA":
        drive.py_code(drive.load(HIST_A))
    elif op == "pyB":
        drive.py_code(drive.load(HIST_B), scheme=["generalized_rush_larsen"])
    elif op == "cA":
        drive.c_code(drive.load(HIST_A))
    elif op == "jaxA":
        drive.py_code(drive.load(HIST_A), backend="jax", scheme=["explicit_euler"])
    elif op in ("sub-py-shared-options", "sub-c-shared-options"):
        A, B = sub_models()
        if op.startswith("sub-py"):
            drive.py_code(A, missing_values=shared_missing(), scheme=["explicit_euler", "hybrid_rush_larsen"], stiff_states=SHARED["stiff"])
        else:
            drive.c_code(A, missing_values=shared_missing(), scheme=["hybrid_rush_larsen"], stiff_states=SHARED["stiff"])
    elif op == "loadA-variant":
        drive.load(HIST_A2)
    elif op == "pyA-variant":
        drive.py_code(drive.load(HIST_A2), scheme=list(models.SCHEMES), stiff_states=["a"])
    elif op == "matrices-A-variant":
        from gotranx import sympytools
        sympytools.jacobi_matrix(drive.load(HIST_A2))
    elif op == "matrices-B":
        from gotranx import sympytools
        sympytools.jacobi_matrix(drive.load(HIST_B))
    elif op == "failing-load":
        try:
            drive.load("states(x=1)\ndx_dt = nope\n")
        except Exception:
            pass
    elif op == "remove-sing-B":
        drive.py_code(drive.load(HIST_B).remove_singularities())
    elif op == "save-reload-A":
        with tempfile.TemporaryDirectory(prefix="gxc09-") as d:
            p = os.path.join(d, "a.ode")
            drive.load(HIST_A).save(p)
            g.load.load_ode(p)
    elif op == "verbose-main":
        from gotranx.cli import gotran2py
        from pathlib import Path
        with tempfile.TemporaryDirectory(prefix="gxc09-") as d:
            p = os.path.join(d, "a.ode")
            open(p, "w").write(HIST_A)
            import io, contextlib
            with contextlib.redirect_stdout(io.StringIO()), contextlib.redirect_stderr(io.StringIO()):
                gotran2py.main(Path(p), verbose=True, format=g.codegen.PythonFormat.none)
    elif op.startswith("pyA+"):
        s = op[4:]
        if s == "all":
            drive.py_code(drive.load(HIST_A), scheme=list(models.SCHEMES), stiff_states=["a"])
        elif s == "ru":
            drive.py_code(drive.load(HIST_A), scheme=["explicit_euler"], remove_unused=True)
        else:
            drive.py_code(drive.load(HIST_A), scheme=[s])
    elif op.startswith("cA+"):
        drive.c_code(drive.load(HIST_A), scheme=[op[3:]])
    elif op.startswith("get_scheme:"):
        from gotranx.schemes import get_scheme
        get_scheme(op.split(":", 1)[1])
    else:
        raise ValueError(op)


def final_observation():
    import io, contextlib
    out = {}
    with contextlib.redirect_stdout(io.StringIO()), contextlib.redirect_stderr(io.StringIO()):
        out["A"] = observe(HIST_A)
        ode = drive.load(HIST_A)
        out["A-ru-jax"] = hashlib.sha256(drive.py_code(ode, scheme=["explicit_euler", "hybrid_rush_larsen"], remove_unused=True, backend="jax", stiff_states=["b"]).encode()).hexdigest()[:16]
        from gotranx.schemes import get_scheme
        from gotranx.codegen import PythonCodeGenerator
        from gotranx.codegen.python import Format
        cg = PythonCodeGenerator(ode, format=Format.none)
        out["A-alias-euler"] = hashlib.sha256(cg.scheme(get_scheme("euler")).encode()).hexdigest()[:16]
        A, B = sub_models()
        out["sub-shared-options"] = hashlib.sha256(drive.py_code(A, missing_values=shared_missing(), scheme=["hybrid_rush_larsen"], stiff_states=SHARED["stiff"]).encode()).hexdigest()[:16]
        out["shared-options-intact"] = json.dumps([SHARED["stiff"], sorted(shared_missing().items())])
        from gotranx import sympytools
        out["matrices-A"] = hashlib.sha256(str(sympytools.jacobi_matrix(ode)).encode()).hexdigest()[:16]
    return out


def run_history(hist):
    for op in hist:
        do_op(op)
    return final_observation()


def bounds(tier):
    return {"global_orders_max_names": "<=5 full observation, 6-7 names+layout only", "per_object_deviations": 1,
            "hash_seeds": "0..31 + random" if tier == "quick" else "0..127 + random", "history_depth": 2 if tier == "quick" else 3,
            "history_ops": len(history_ops()), "family": len(family(tier))}


def items(tier):
    its = []
    maxn = 7
    for key, sp in family(tier):
        uni = universe(sp)
        its.append({"key": f"sched-object|{key}", "kind": "sched-object", "spec": sp, "name": key, "bound": 1,
                    "sample": {"model": key, "mode": "per-object deviations", "text": models.spec_text(sp)}})
        if len(uni) <= maxn:
            perms = list(itertools.permutations(range(len(uni))))
            full = len(uni) <= 5  # full observation (code bytes); above that: names/slot layout only
            for i, ch in enumerate(E.chunks(perms, 60 if full else 720)):
                its.append({"key": f"sched-global{'' if full else '-light'}|{key}|{i:04d}", "kind": "sched-global" if full else "sched-global-light", "spec": sp, "name": key, "perms": ch,
                            "sample": {"model": key, "mode": "global order" + ("" if full else " (names and slot layout only)"), "first_order": [uni[j] for j in ch[0]]}})
        else:
            # larger universes: all permutations of every <=maxn-subset are too many; use the light observation on all adjacent transpositions + reversal
            its.append({"key": f"sched-global-light|{key}", "kind": "sched-global-light", "spec": sp, "name": key,
                        "sample": {"model": key, "mode": "global order (names only)"}})
    seeds = list(range(32 if tier == "quick" else 128)) + ["random"]
    for ch in E.chunks(seeds, 2 if tier == "quick" else 8):
        its.append({"key": f"seeds|{ch[0]}..{ch[-1]}", "kind": "seeds", "seeds": ch, "tier": tier, "sample": {"PYTHONHASHSEED": ch}})
    ops = history_ops()
    depth = 2 if tier == "quick" else 3
    hists = [()]
    for d in range(1, depth + 1):
        if d <= 2:
            hists += list(itertools.product(ops, repeat=d))
        else:
            core = [o for o in ops if o.startswith("get_scheme:") or o in ("pyA+all", "cA+explicit_euler", "remove-sing-B", "verbose-main", "jaxA")]
            hists += list(itertools.product(core, repeat=d))
    for i, ch in enumerate(E.chunks(hists, 25)):
        its.append({"key": f"hist|{i:05d}", "kind": "hist", "hists": [list(h) for h in ch], "sample": {"history": list(ch[-1])}})
    return its


ROOT_DIR = __import__("os").path.dirname(__import__("os").path.dirname(__import__("os").path.abspath(__file__)))
_seed_worker = r'''
import sys, json, os
sys.path.insert(0, sys.argv[3])
os.environ["GOTRANX_SRC"] = sys.argv[1]
from checks import c09
from mc import models
import glob
out = {}
for key, sp in c09.family(sys.argv[2]):
    out[key] = c09.observe(models.spec_text(sp))
src = os.path.dirname(sys.argv[1])
for f in sorted(glob.glob(os.path.join(src, "tests/odefiles/*.ode"))):
    if os.path.getsize(f) < 20000 or sys.argv[2] != "quick":
        out["file|" + os.path.basename(f)] = c09.observe(open(f).read())
print("RESULT " + json.dumps(out))
'''


def run_item(item):
    g = drive.gx()
    res = c01.new_res()
    kind = item["kind"]
    if kind.startswith("sched"):
        sched.install()
        sp = item["spec"]
        text = models.spec_text(sp)
        uni = universe(sp)
        key = item["name"]

        def fail(cls, what, detail):
            res["failures"].append({"finding": f"{ID}|{cls}", "what": f"{key}: {what}", "size": len(text), "detail": dict(detail, text=text)})
        try:
            with sched.controlled(sched.Scheduler(rank=None)) as s0:
                base = observe(text, light=(kind == "sched-global-light"))
            nobj = len(s0.sizes)
            sizes = list(s0.sizes)
            cp0 = s0.choice_points
        except Exception as ex:
            sched.uninstall()
            fail("default-schedule-raises", repr(ex)[:200], {})
            return res
        res["transitions"] += 1
        res["extra"] = {"set_choice_points": cp0}
        outcomes = {base}
        if kind in ("sched-global", "sched-global-light"):
            perms = item.get("perms")
            if perms is None:
                n = len(uni)
                perms = [tuple(range(n))[::-1]] + [tuple(list(range(i)) + [i + 1, i] + list(range(i + 2, n))) for i in range(n - 1)]
            for perm in perms:
                rank = {uni[j]: pos for pos, j in enumerate(perm)}
                try:
                    with sched.controlled(sched.Scheduler(rank=rank)):
                        o = observe(text, light=(kind == "sched-global-light"))
                    with sched.controlled(sched.Scheduler(rank=rank)):
                        o2 = observe(text, light=True) if False else o
                except Exception as ex:
                    fail("raises-under-schedule", f"order {[uni[j] for j in perm]}: {ex!r}"[:250], {"order": [uni[j] for j in perm]})
                    break
                res["states"] += 1
                res["transitions"] += 1
                res["traces"] += 1
                res["evaluations"] += 1
                outcomes.add(o)
                if o != base:
                    fail("output-depends-on-set-iteration-order", f"all sets iterating in the order {[uni[j] for j in perm]} give different generated code / slot layout than the sorted order",
                         {"order": [uni[j] for j in perm], "default": base, "observed": o})
                    break
        else:
            bound = item["bound"]
            objs = [k for k in range(nobj) if sizes[k] >= 2]
            import math
            singles = [(k, d) for k in objs for d in range(1, math.factorial(min(sizes[k], 4)))]
            runs = [dict([s]) for s in singles]
            if bound >= 2:
                runs += [dict([a, b]) for a, b in itertools.combinations(singles, 2) if a[0] != b[0]][:4000]
            for dev in runs:
                try:
                    with sched.controlled(sched.Scheduler(deviations=dev)) as s1:
                        o = observe(text)
                except Exception as ex:
                    fail("raises-under-schedule", f"deviations {dev}: {ex!r}"[:250], {"deviations": {str(k): v for k, v in dev.items()}})
                    break
                if len(s1.sizes) != nobj:
                    # a diverging prefix: the set objects iterated differ from the default run - replay discipline violated only if the output differs
                    pass
                res["states"] += 1
                res["transitions"] += 1
                res["traces"] += 1
                res["evaluations"] += 1
                outcomes.add(o)
                if o != base:
                    fail("output-depends-on-set-iteration-order", f"one set object (#{list(dev)} of {nobj} iterated sets) iterating in a non-sorted order changes the generated code / slot layout",
                         {"deviations": {str(k): v for k, v in dev.items()}, "default": base, "observed": o})
                    break
        sched.uninstall()
        res["outcomes"] = [f"{key}:{o}" for o in sorted(outcomes)]
        res["nontrivial"] = 1 if cp0 else 0
        return res
    if kind == "seeds":
        src = os.environ.get("GOTRANX_SRC", "/repo/src")
        # every hash seed observes the quick family and the repository's smaller .ode files; the thorough tier widens the seed range
        # (0..255), not the family: 1 500 models x 257 fresh processes does not finish
        tier = "quick"
        base = {k: observe(models.spec_text(sp)) for k, sp in family(tier)}
        for seed in item["seeds"]:
            env = dict(os.environ, PYTHONHASHSEED=str(seed), PYTHONDONTWRITEBYTECODE="1")
            r = subprocess.run(["/venv/bin/python", "-c", _seed_worker, src, tier, ROOT_DIR], capture_output=True, text=True, env=env, timeout=1500)
            res["states"] += 1
            res["transitions"] += 1
            line = [ln for ln in r.stdout.splitlines() if ln.startswith("RESULT ")]
            if r.returncode != 0 or not line:
                res["failures"].append({"finding": f"{ID}|seed-worker-fails", "what": f"PYTHONHASHSEED={seed}: worker exit {r.returncode}: {r.stderr[-300:]}", "size": 1, "detail": {}})
                continue
            got = json.loads(line[0][7:])
            res["traces"] += len(got)
            for k, o in got.items():
                res["evaluations"] += 1
                res["outcomes"].append(f"{k}:{o}")
                if k in base and o != base[k]:
                    res["failures"].append({"finding": f"{ID}|output-depends-on-hash-seed", "what": f"{k}: PYTHONHASHSEED={seed} gives generated code / slot layout different from this process' (seed {os.environ.get('PYTHONHASHSEED')})",
                                            "size": len(k), "detail": {"model": k, "seed": seed, "text": dict(family(tier)).get(k) and models.spec_text(dict(family(tier))[k])}})
            res["nontrivial"] += 1
        # outcomes across seeds for the files (no in-process baseline): must be a single value per file, checked by the runner through distinct outcomes below
        return res
    if kind == "hist":
        base = _baseline()
        for hist in item["hists"]:
            st, out = child.run(run_history, (hist,), timeout=300)
            res["states"] += 1
            res["transitions"] += len(hist) + 1
            res["traces"] += 1
            res["evaluations"] += 1
            res["nontrivial"] += 1 if hist else 0
            if st != "ok":
                res["failures"].append({"finding": f"{ID}|history-raises", "what": f"history {hist}: {st} {out}", "size": len(hist), "detail": {"history": hist},
                                        "replay_item": {"key": "hist|single|" + ">".join(hist), "kind": "hist", "hists": [hist]}})
                continue
            if out != base:
                diff = {k: (base[k], out.get(k)) for k in base if base[k] != out.get(k)}
                res["failures"].append({"finding": f"{ID}|output-depends-on-history|{'+'.join(sorted(diff))}", "what": f"after the history {hist} the generated code differs from a fresh process for {sorted(diff)}",
                                        "size": len(hist), "detail": {"history": hist, "diff": diff},
                                        "replay_item": {"key": "hist|single|" + ">".join(hist), "kind": "hist", "hists": [hist]}})
        return res
    raise ValueError(kind)


_base = {}


def _baseline():
    if "b" not in _base:
        st, out = child.run(run_history, ([],), timeout=300)
        assert st == "ok", (st, out)
        _base["b"] = out
    return _base["b"]
