"""C14 - generated NumPy functions are vectorised column-wise.

For every E2 expression shape (conditionals / boolean connectives with 2-4 operands, abs, floor, Mod, functions, literals), every
rate-family model (scheme linearisations!) and the E3 zero/one-intermediate structures: every generated function (rhs,
monitor_values, explicit_euler, generalized_rush_larsen, hybrid_rush_larsen) is called with a states array of shape (n, N) whose
columns are the full input grid (so columns lie on different sides of every condition), with parameters and time each either
shared or per column (4 combinations).  Oracle: column j of the batched result equals the scalar call on column j.
"""
from __future__ import annotations

import hashlib
import itertools

import numpy

from mc import drive, lang as L, enumerate as E, models, packs
from checks import c01

ID = "C14"
LEVEL = "model_checking"
RULE = ("every E2 expression (packed, bisected on failure), rate-family model and small E3 structure x every generated NumPy function x "
        "{parameters shared | per column} x {time shared | per column}: batch = the full Cartesian input grid as columns; column j of the "
        "batched call must equal the scalar call on column j (rel. 1e-12, NaN == NaN) and have the documented shape. Non-trivial = "
        "program whose columns produce >= 2 distinct values.")
ASSUMPTIONS = ["numpy trusted", "finite grid", "a column on which the scalar call itself raises (python-float ZeroDivisionError) is not compared"]
ITEM_BUDGET_S = 1800
FUNCS = ("rhs", "monitor_values") + models.SCHEMES


def bounds(tier):
    return {"functions": list(FUNCS), "modes": ["p shared/t shared", "p per-column/t shared", "p shared/t per-column", "p per-column/t per-column"],
            "E2": "all", "rates": len(models.rate_family())}


def items(tier):
    its = []
    e2, _ = packs.screen(E.e2_all(tier))
    if tier != "quick":
        e1, _ = packs.screen(E.e1(2, E.LEAVES_Q))
        e2 = e2 + e1
    for i, ch in enumerate(E.chunks(e2, 100)):
        h = hashlib.sha1("\n".join(L.render(e) for e in ch).encode()).hexdigest()[:10]
        its.append({"key": f"E2|{i:05d}|{h}", "kind": "pack", "exprs": ch, "sample": {"first": [L.render(e) for e in ch[:3]], "n": len(ch)}})
    specs = models.degenerate_specs() + models.rate_specs()
    shapes = models.e3_shapes("quick")
    specs += [(k, s) for k, s in models.e3_specs("quick", variants=(tier != "quick")) if len(shapes[int(k.split("|")[1])][0]) <= 1 and ("|n0|" in k or tier != "quick")]
    for ch in E.chunks(specs, 6):
        its.append({"key": f"{ch[0][0]}..{ch[-1][0]}", "kind": "models", "specs": [[k, s] for k, s in ch],
                    "sample": {"first_key": ch[0][0], "first_text": models.spec_text(ch[0][1]), "n": len(ch)}})
    from checks import c13
    for ch in E.chunks(c13.rich_family(), 3):
        its.append({"key": f"split|{ch[0][0]}..{ch[-1][0]}", "kind": "split", "specs": [[k, s] for k, s in ch],
                    "sample": {"first_key": ch[0][0], "what": "sub-models with missing variables: rhs, monitor_values, missing_values, schemes batched"}})
    return its


def compare_batched(ns, fname, sidx, pidx, pts, res, tag, fail, names_of_interest=None, midx=None):
    """pts: list of dicts with t + states + params (+ missing variables, always per column).  Runs the 4 sharing modes."""
    n, npar = len(sidx), len(pidx)
    is_scheme = fname not in ("rhs", "monitor_values", "missing_values")
    midx = midx or {}

    def arrays(sub):
        S = numpy.zeros((n, len(sub)))
        P = numpy.zeros((npar, len(sub)))
        T = numpy.zeros(len(sub))
        for j, pt in enumerate(sub):
            for nm, i in sidx.items():
                S[i, j] = pt.get(nm, 0.0)
            for nm, i in pidx.items():
                P[i, j] = pt.get(nm, 0.0)
            T[j] = pt["t"]
        M = numpy.zeros((len(midx), len(sub)))
        for j, pt in enumerate(sub):
            for nm, i in midx.items():
                M[i, j] = pt.get(nm, 0.0)
        return S, P, T, M

    def call(s, t, p, m=None):
        extra = [m] if midx else []
        with numpy.errstate(all="ignore"):
            if is_scheme:
                return ns[fname](s, t, 0.125, p, *extra)
            return ns[fname](t, s, p, *extra)

    pnames = sorted(pidx)
    distinct = set()
    for pshared, tshared in ((True, True), (False, True), (True, False), (False, False)):
        groups = {}
        for pt in pts:
            k = (tuple(pt.get(nm, 0.0) for nm in pnames) if pshared else None, pt["t"] if tshared else None)
            groups.setdefault(k, []).append(pt)
        for k, sub in groups.items():
            if len(sub) < 2:
                continue
            S, P, T, M = arrays(sub)
            p_arg = P[:, 0].copy() if pshared else P
            t_arg = float(T[0]) if tshared else T
            mode = f"p {'shared' if pshared else 'per-column'}/t {'shared' if tshared else 'per-column'}"
            scal = []
            for j in range(len(sub)):
                try:
                    scal.append(numpy.asarray(call(S[:, j].copy(), float(T[j]), P[:, j].copy(), M[:, j].copy()), dtype=float))
                except Exception as ex:
                    scal.append(ex)
            res["transitions"] += len(sub) + 1
            try:
                out = numpy.asarray(call(S.copy(), t_arg, p_arg, M.copy()), dtype=float)
            except Exception as ex:
                if all(isinstance(s_, Exception) for s_ in scal):
                    continue
                fail("batched-call-raises", f"{tag}: {fname} [{mode}] raises {ex!r} for a batch of {len(sub)} columns although scalar calls work", {"mode": mode})
                return distinct
            ok_shape = out.ndim == 2 and out.shape[1] == len(sub)
            if not ok_shape:
                fail("wrong-shape", f"{tag}: {fname} [{mode}] returned shape {out.shape} for {len(sub)} columns", {"mode": mode})
                return distinct
            for j in range(len(sub)):
                if isinstance(scal[j], Exception):
                    continue
                a, b = out[:, j], scal[j]
                res["evaluations"] += 1
                if a.shape != b.shape:
                    fail("wrong-shape", f"{tag}: {fname} [{mode}] column {j} has shape {a.shape}, scalar call {b.shape}", {"mode": mode})
                    return distinct
                for v in b[:8]:
                    distinct.add(round(float(v), 9) if v == v else "nan")
                with numpy.errstate(all="ignore"):
                    # a non-finite scalar result marks a point outside the expression's domain (division by zero, overflow); there numpy's
                    # array and scalar kernels may follow different IEEE conventions ((-inf)**0.5 is +inf for scalars, nan via the sqrt
                    # fast path for arrays): both non-finite counts as agreement, finite vs non-finite does not
                    same = (a == b) | (~numpy.isfinite(a) & ~numpy.isfinite(b)) | (numpy.abs(a - b) <= 1e-12 * numpy.maximum(1.0, numpy.abs(b)))
                if not same.all():
                    i = int(numpy.argmin(same))
                    fail("column-differs", f"{tag}: {fname} [{mode}] column {j} slot {i}: batched {a[i]!r} != scalar {b[i]!r} at {sub[j]}", {"mode": mode, "point": sub[j]})
                    return distinct
            res["traces"] += 1
    return distinct


def run_pack(exprs, res):
    text, names, svars, pvars = packs.pack_text(exprs)
    def fail(cls, what, detail=None):
        res["failures"].append({"finding": f"{ID}|pack|{cls}", "what": what, "size": L.size(exprs[0]) if len(exprs) == 1 else 999,
                                "detail": dict(detail or {}, text=text), "replay_item": {"key": "single|" + L.render(exprs[0]), "kind": "pack", "exprs": [exprs[0]]}})
    try:
        ode = drive.load(text)
        ns = drive.exec_py(drive.py_code(ode))
    except Exception as ex:
        if len(exprs) > 1:
            h = len(exprs) // 2
            run_pack(exprs[:h], res)
            run_pack(exprs[h:], res)
        else:
            res["states"] += 1
            res["skipped"]["not-generated(C01)"] = res["skipped"].get("not-generated(C01)", 0) + 1
        return
    pts = packs.points_for(exprs)
    sidx = {k: v for k, v in ns["state"].items() if k in svars}
    before = len(res["failures"])
    tmp = dict(res, failures=[])
    for fname in ("rhs", "monitor_values"):
        d = compare_batched(ns, fname, _full(ns["state"]), ns["parameter"], pts, tmp, "pack", lambda c, w, dd=None: tmp["failures"].append((c, w, dd)))
    for k in ("transitions", "traces", "evaluations"):
        res[k] = tmp[k]
    if tmp["failures"]:
        if len(exprs) > 1:
            h = len(exprs) // 2
            run_pack(exprs[:h], res)
            run_pack(exprs[h:], res)
            return
        c, w, dd = tmp["failures"][0]
        res["states"] += 1
        fail(c, f"`{L.render(exprs[0])}`: {w}", dd)
        return
    res["states"] += len(exprs)
    res["nontrivial"] += len(exprs) if len(d) >= 2 else 0


def _full(state_dict):
    return dict(state_dict)


def run_split(item, res):
    """sub-models obtained by splitting at every component: all functions incl. missing_values, with a missing_variables array of shape (n_missing, N)"""
    import itertools
    for key, sp in item["specs"]:
        text = models.spec_text(sp)
        spn = models.norm(sp)
        ode = drive.load(text)
        from checks import c13
        comps = sorted({t_ for n, _ in spn["states"] + spn["params"] + spn["assigns"] for t_ in c13.tags((spn.get("comp") or {}).get(n, ""))})
        for cname in comps:
            comp = ode.get_component(cname)
            parts = {"A": comp.to_ode(), "B": ode - comp}
            for tag, other in (("A", "B"), ("B", "A")):
                sub, oth = parts[tag], parts[other]
                if not sub.states:
                    continue
                res["states"] += 1

                def fail(cls, what, detail=None, _k=key, _sp=sp):
                    res["failures"].append({"finding": f"{ID}|split|{cls}", "what": f"{_k} part {tag} of the split at '{cname}': {what}", "size": len(text), "detail": dict(detail or {}, text=text),
                                            "replay_item": {"key": "split|" + _k, "kind": "split", "specs": [[_k, _sp]]}})
                try:
                    ns = drive.exec_py(drive.py_code(sub, scheme=list(models.SCHEMES), stiff_states=[s_.name for s_ in sub.states], missing_values=oth.missing_variables or None))
                except Exception as ex:
                    fail("codegen-raises", repr(ex)[:200])
                    continue
                names = ["t"] + sorted(ns["state"]) + sorted(ns["parameter"]) + sorted(sub.missing_variables)
                vals = (-1.0, 0.5, 2.0) if len(names) <= 6 else (-1.0, 2.0)
                pts = [dict(zip(names, tup)) for tup in itertools.product(vals, repeat=len(names))][:729]
                d = set()
                fns = ["rhs", "monitor_values"] + list(models.SCHEMES) + (["missing_values"] if "missing_values" in ns else [])
                for fname in fns:
                    d |= compare_batched(ns, fname, ns["state"], ns["parameter"], pts, res, key, fail, midx=dict(sub.missing_variables))
                if len(d) >= 2:
                    res["nontrivial"] += 1


def run_item(item):
    drive.gx()
    res = c01.new_res()
    if item["kind"] == "split":
        run_split(item, res)
        return res
    if item["kind"] == "pack":
        run_pack([L.from_json(e) for e in item["exprs"]], res)
        return res
    for key, sp in item["specs"]:
        res["states"] += 1
        text = models.spec_text(sp)
        ref = models.Ref(sp)

        def fail(cls, what, detail=None, _k=key, _sp=sp):
            res["failures"].append({"finding": f"{ID}|model|{cls}|{_k if _k.startswith('rate|') else 'E3'}", "what": what, "size": len(text), "detail": dict(detail or {}, text=text),
                                    "replay_item": {"key": _k, "kind": "models", "specs": [[_k, _sp]]}})
        try:
            ns = drive.exec_py(drive.py_code(drive.load(text), scheme=list(models.SCHEMES), stiff_states=list(ref.states)))
        except Exception:
            res["skipped"]["scheme-generation-fails(C06)"] = res["skipped"].get("scheme-generation-fails(C06)", 0) + 1
            continue
        res["transitions"] += 3
        pts = models.model_grid(ref)
        d = set()
        for fname in FUNCS:
            d |= compare_batched(ns, fname, ns["state"], ns["parameter"], pts, res, key, fail)
        if len(d) >= 2:
            res["nontrivial"] += 1
        # the shape option: a module generated with shape=multiple, called on the batch, must agree column by column with a module
        # generated with shape=single called on each column (and both with the default dynamic module checked above)
        if key.startswith(("rate|", "deg|")):
            try:
                ode_ = drive.load(text)
                nm = drive.exec_py(drive.py_code(ode_, scheme=list(models.SCHEMES), stiff_states=list(ref.states), shape="multiple"))
                n1 = drive.exec_py(drive.py_code(ode_, scheme=list(models.SCHEMES), stiff_states=list(ref.states), shape="single"))
            except Exception as ex:
                fail("shape-option-codegen-raises", f"{key}: {ex!r}"[:200])
                continue
            sub = pts[:: max(1, len(pts) // 40)][:40]
            S = numpy.zeros((len(ns["state"]), len(sub)))
            P = numpy.zeros((len(ns["parameter"]), len(sub)))
            for j, pt in enumerate(sub):
                for n_, i_ in ns["state"].items():
                    S[i_, j] = pt[n_]
                for n_, i_ in ns["parameter"].items():
                    P[i_, j] = pt[n_]
            t0 = sub[0]["t"]
            for fname in FUNCS:
                is_s = fname not in ("rhs", "monitor_values")
                try:
                    with numpy.errstate(all="ignore"):
                        out = numpy.asarray(nm[fname](S.copy(), t0, 0.125, P) if is_s else nm[fname](t0, S.copy(), P), dtype=float)
                        for j in range(len(sub)):
                            col = numpy.asarray(n1[fname](S[:, j].copy(), t0, 0.125, P[:, j].copy()) if is_s else n1[fname](t0, S[:, j].copy(), P[:, j].copy()), dtype=float)
                            res["evaluations"] += 1
                            a = out[:, j]
                            same = (a == col) | (numpy.isnan(a) & numpy.isnan(col)) | (numpy.abs(a - col) <= 1e-12 * numpy.maximum(1.0, numpy.abs(col)))
                            if a.shape != col.shape or not same.all():
                                fail("shape-multiple-vs-single", f"{key}: {fname} column {j}: shape=multiple gives {a.tolist()}, shape=single {col.tolist()} at {sub[j]}")
                                break
                except Exception as ex:
                    fail("shape-option-call-raises", f"{key}: {fname}: {ex!r}"[:200])
    return res
