"""C15 - importing a Myokit / CellML model preserves its dynamics (and exporting back preserves values and units).

Enumerated Myokit models (built from .mmt text with myokit.parse_model): every Myokit operator once in a rate expression; nested
variables under states and under intermediates, the same local name under different parents, nested depth 2; names clashing with
sympy names (beta gamma E I S N Q zeta Symbol lambda ...) in every role; names with the '_' suffix; two components with cross
references and equal variable names; literal constants, constant expressions, dependent constants; plus the repository's .mmt
(with embedded pacing protocol) and CellML files.  Pipeline exactly as documented: myokit_to_gotran -> save -> load_ode -> NumPy rhs.
Oracle: myokit.Model.evaluate_derivatives(state) at the initial state and at every perturbation of one or two states by +-1 %,
+-10 %.  Reverse direction: gotran_to_myokit on text models and on the imported models: evaluate_derivatives vs generated rhs.
"""
from __future__ import annotations

import glob
import itertools
import os
import tempfile

import numpy

from mc import drive, lang as L, enumerate as E, models
from checks import c01

ID = "C15"
LEVEL = "model_checking"
RULE = ("every model of the enumerated Myokit family (operators x nesting structures x clashing names x component layouts) and the corpus files: "
        "myokit_to_gotran -> save -> load_ode -> generated NumPy rhs compared with myokit's evaluate_derivatives at the initial state and all "
        "single/pair perturbations by +-1%, +-10%; states and constants present under their unique names with their values; reverse direction "
        "gotran_to_myokit compared the same way. Non-trivial = model whose derivative vector takes >= 2 distinct values over the perturbations.")
ASSUMPTIONS = ["myokit's own evaluator and parser are trusted", "names reserved by the importer may carry a '_' suffix (accepted as the unique name)"]
ITEM_BUDGET_S = 1800

OPS = {
    "add": "x + y * k", "sub": "x - y - k", "mul": "x * y * k", "div": "x / (y + 3)", "pow": "x ^ 2 + 2 ^ y", "powfrac": "(x + 2) ^ 0.5", "neg": "-x + -(y)", "pos": "+x",
    "sqrt": "sqrt(x + 2)", "exp": "exp(-x)", "log": "log(x + 2)", "log10": "log10(x + 2)", "log2arg": "log(x + 2, 3)", "sin": "sin(x)", "cos": "cos(x)", "tan": "tan(x)",
    "asin": "asin(x / 4)", "acos": "acos(x / 4)", "atan": "atan(x)", "floor": "floor(x * 2.5)", "ceil": "ceil(x * 2.5)", "abs": "abs(x - 1.05)",
    "quotient": "(x * 7) // 2", "remainder": "(x * 7) % 2", "remainder-neg": "(-x * 7) % 2", "if": "if(x > 1.05, -y, k)", "if-nested": "if(x > 1.05, if(y > 0.5, 1, 2), 3)",
    "piecewise": "piecewise(x < 0.95, 1, x < 1.05, 2, 3)", "not": "if(not (x > 1.05), 1, 2)", "and": "if(x > 0.95 and y < 0.52, 1, 2)", "or": "if(x > 1.05 or y < 0.48, 1, 2)",
    "and3": "if(x > 0.95 and y < 0.52 and k > 1, 1, 2)", "eq": "if(x == 1.0, 1, 2)", "neq": "if(x != 1.0, 1, 2)", "ge": "if(x >= 1.0, 1, 2)", "le": "if(x <= 1.0, 1, 2)",
    "lt": "if(x < 1.0, 1, 2)", "gt": "if(x > 1.0, 1, 2)", "time": "x * engine.time + y", "intdiv-const": "7 / 2 * x", "sci": "1e-3 * x + 2.5e2 * y", "bigexp": "exp(x / 100) - 1",
}
# every unary function with each argument shape (atom is covered above): sum, difference, product, negation, quotient
for _f in ("sqrt", "exp", "log", "sin", "cos", "atan", "floor", "ceil", "abs"):
    for _an, _a in (("sum", "x * 2.5 + y"), ("diff", "x - k / 4"), ("neg", "-x * 0.5 + 2"), ("quot", "(x + 3) / (y + 2)"), ("diff2", "3.25 - x - y")):
        OPS[f"{_f}-of-{_an}"] = f"{_f}({_a})"
# comparisons against negative literals (the printers' "simplify cannot decide" path) under every logical connective, and negated connectives
OPS.update({"gt-neg": "if(x - 2 > -0.95, 1, 2)", "lt-neg": "if(x - 2 < -0.95, 1, 2)", "not-neg": "if(not (x - 2 > -0.95), 1, 2)", "not-neg-le": "if(not (x - 2 <= -0.95), y, k)",
            "and-neg": "if(x - 2 > -1.05 and y - 1 < -0.48, 1, 2)", "or-neg": "if(x - 2 > -0.95 or y - 1 < -0.52, 1, 2)", "not-and": "if(not (x > 0.95 and y < 0.52), 1, 2)",
            "not-or": "if(not (x > 1.05 or y < 0.48), 1, 2)", "not-eq": "if(not (x == 1.0), 1, 2)", "not-not": "if(not (not (x > 1.05)), 1, 2)",
            "piecewise-neg": "piecewise(x - 2 < -1.05, 1, x - 2 < -0.95, 2, 3)", "eq-neg": "if(x - 2 == -1.0, 1, 2)"})
OPS.update({"piecewise-repeated-value": "piecewise(x < 0.95, 3, x < 1.05, 2, 3)", "piecewise-4": "piecewise(x < 0.9, 1, x < 1.0, 2, x < 1.1, 1, 2)",
            "piecewise-overlap": "piecewise(x < 1.05, y, x < 0.95, k, y)", "if-same-branches": "if(x > 1.0, k, k) + if(y < 0.5, x, y)"})
OPS.update({"neg-of-sum": "-(x + y * 2)", "sub-of-sum": "k - (x + y)", "sub-of-diff": "k - (x - y)", "div-of-prod": "k / (x * 2 + 1) / (y + 1)", "pow-of-neg": "(-x) ^ 2 - x ^ 2 * 3",
            "pow-tower": "2 ^ 3 ^ 0.5 + (x ^ 2) ^ 1.5", "if-in-arith": "2 * if(x > 1.05, 1, 3) - if(y < 0.49, y, k) / 4", "cond-of-arith": "if(x * 2 - y > 1.55, x, y)"})
CLASH = ["beta", "gamma", "E", "I", "S", "N", "Q", "zeta", "Symbol", "lambda", "pi", "oo", "nan", "im", "re", "sign", "Min", "alpha", "test", "var", "E1", "beta_", "x_", "time_", "t", "dt", "states", "values"]


def mmt(states, body, name="m", extra_components=""):
    """states: {qname: init}; body: text of component c"""
    init = "\n".join(f"{q} = {v}" for q, v in states.items())
    return f"[[model]]\nname: {name}\n{init}\n\n[engine]\ntime = 0 bind time\n\n[c]\n{body}\n{extra_components}"


def family():
    out = []
    for k, e in OPS.items():
        out.append((f"op|{k}", mmt({"c.x": 1.0, "c.y": 0.5}, f"dot(x) = {e}\ndot(y) = k - y\nk = 2.5\n")))
        out.append((f"op-in-intermediate|{k}", mmt({"c.x": 1.0, "c.y": 0.5}, f"dot(x) = w * 2\nw = {e}\ndot(y) = k - y\nk = 2.5\n")))
    # a state with negative values compared directly with negative literals (membrane potential against -40): every relation, negated
    # relations, connectives and piecewise chains; the perturbations of -1.0 fall on both sides of -0.95 / -1.05
    NEG = {"gt": "if(v > -1.05, 1, 2)", "lt": "if(v < -0.95, y, k)", "ge": "if(v >= -1.0, 1, 2)", "le": "if(v <= -1.0, 1, 2)", "eq": "if(v == -1.0, 1, 2)", "neq": "if(v != -1.0, 1, 2)",
           "not-gt": "if(not (v > -0.95), 0.5 * exp(-(v + 2) / 6.8), 0)", "not-lt": "if(not (v < -1.05), 1, 2)", "not-ge": "if(not (v >= -1.0), 1, 2)", "not-le": "if(not (v <= -1.0), y, k)",
           "and": "if(v > -1.05 and v < -0.95, 1, 2)", "or": "if(v < -1.05 or v > -0.95, 1, 2)", "not-and": "if(not (v > -1.05 and y < 0.52), 1, 2)", "not-or": "if(not (v < -1.05 or y < 0.48), 1, 2)",
           "and-not": "if(v > -1.05 and not (y > 0.52), 1, 2)", "piecewise": "piecewise(v < -1.05, 1, v < -0.95, 2, 3)", "piecewise-not": "piecewise(not (v > -1.05), 1, not (v > -0.95), 2, 3)",
           "if-in-arith": "2 * if(v > -0.95, 1, 3) - if(not (v > -1.05), y, k) / 4", "literal-left": "if(-0.95 < v, 1, 2)", "not-literal-left": "if(not (-0.95 < v), 1, 2)"}
    for k, e in NEG.items():
        out.append((f"neg|{k}", mmt({"c.v": -1.0, "c.y": 0.5}, f"dot(v) = {e}\ndot(y) = k - y\nk = 2.5\n")))
        out.append((f"neg-in-intermediate|{k}", mmt({"c.v": -1.0, "c.y": 0.5}, f"dot(v) = w * 2\nw = {e}\ndot(y) = k - y\nk = 2.5\n")))
    gate = lambda s, a, b: f"dot({s}) = alpha * (1 - {s}) - beta * {s}\n    alpha = {a}\n    beta = {b}\n"
    out.append(("nest|one-gate", mmt({"c.x": 0.3, "c.y": 0.5}, gate("x", "0.5 * k", "exp(-y)") + "dot(y) = k - y\nk = 2.5\n")))
    out.append(("nest|two-gates-same-local-names", mmt({"c.x": 0.3, "c.y": 0.5}, gate("x", "0.5 * k", "exp(-y)") + gate("y", "0.25 + x", "k / 5") + "k = 2.5\n")))
    out.append(("nest|three-gates", mmt({"c.x": 0.3, "c.y": 0.5, "c.z": 0.7}, gate("x", "0.5 * k", "exp(-y)") + gate("y", "0.25 + x", "k / 5") + gate("z", "x * y", "2") + "k = 2.5\n")))
    out.append(("nest|under-intermediate", mmt({"c.x": 0.3, "c.y": 0.5}, "dot(x) = g * (k - x)\ng = alpha / (alpha + beta)\n    alpha = 1 + y\n    beta = exp(x)\ndot(y) = k - y\nk = 2.5\n")))
    out.append(("nest|intermediate-and-gate-same-names", mmt({"c.x": 0.3, "c.y": 0.5}, gate("x", "0.5 * k", "exp(-y)") + "g = alpha / (alpha + beta)\n    alpha = 1 + y\n    beta = exp(x)\ndot(y) = g - y\nk = 2.5\n")))
    out.append(("nest|depth-2", mmt({"c.x": 0.3, "c.y": 0.5}, "dot(x) = a - x\n    a = b * 2 + k\n        b = y + 1\ndot(y) = k - y\nk = 2.5\n")))
    out.append(("nest|sibling-reference", mmt({"c.x": 0.3, "c.y": 0.5}, "dot(x) = a + b\n    a = y + 1\n    b = a * k\ndot(y) = k - y\nk = 2.5\n")))
    out.append(("nest|nested-constant", mmt({"c.x": 0.3, "c.y": 0.5}, "dot(x) = a * x\n    a = 0.75\ndot(y) = k - y\nk = 2.5\n")))
    out.append(("nest|local-shadows-component-var", mmt({"c.x": 0.3, "c.y": 0.5}, "dot(x) = w * x\n    w = 0.75 + y\ndot(y) = q - y\nq = 2 * k\nk = 2.5\n")))
    for nm in CLASH:
        out.append((f"clash|constant|{nm}", mmt({"c.x": 1.0, "c.y": 0.5}, f"dot(x) = {nm} * x - y\ndot(y) = k - y\n{nm} = 1.75\nk = 2.5\n")))
        out.append((f"clash|intermediate|{nm}", mmt({"c.x": 1.0, "c.y": 0.5}, f"dot(x) = {nm} - x\ndot(y) = k - y\n{nm} = k * y + 1\nk = 2.5\n")))
        out.append((f"clash|state|{nm}", mmt({"c.x": 1.0, f"c.{nm}": 0.5}, f"dot(x) = {nm} * x - k\ndot({nm}) = k - {nm}\nk = 2.5\n")))
        out.append((f"clash|nested|{nm}", mmt({"c.x": 1.0, "c.y": 0.5}, f"dot(x) = {nm} * (1 - x)\n    {nm} = 0.5 + y\ndot(y) = k - y\nk = 2.5\n")))
    out.append(("clash|name-and-suffixed-name", mmt({"c.x": 1.0, "c.y": 0.5}, "dot(x) = beta * x - beta_\ndot(y) = k - y\nbeta = 1.75\nbeta_ = 0.25 + y\nk = 2.5\n")))
    two = "\n[d]\ndot(v) = c.x - v * kk + w\nkk = 1.5\nw = c.k * 2\n"
    out.append(("comp|cross-reference", mmt({"c.x": 1.0, "c.y": 0.5, "d.v": 0.25}, "dot(x) = d.v - x\ndot(y) = k - y\nk = 2.5\n", extra_components=two)))
    same = "\n[d]\ndot(x) = c.x - x * k\nk = 1.5\n"
    out.append(("comp|same-names-in-two-components", mmt({"c.x": 1.0, "c.y": 0.5, "d.x": 0.25}, "dot(x) = d.x - x\ndot(y) = k - y\nk = 2.5\n", extra_components=same)))
    nestedsame = "\n[d]\ndot(v) = alpha * (1 - v) - beta * v\n    alpha = c.x\n    beta = 2\n"
    out.append(("comp|same-nested-names-in-two-components", mmt({"c.x": 0.3, "c.y": 0.5, "d.v": 0.25}, gate("x", "0.5 * k", "exp(-y)") + "dot(y) = k - y\nk = 2.5\n", extra_components=nestedsame)))
    gate2 = lambda comp, s, a, b: f"\n[{comp}]\ndot({s}) = (inf - {s}) / tau\n    inf = {a}\n    tau = {b}\n"
    out.append(("comp|same-owner-and-nested-names-in-two-components", mmt({"c.y": 0.5, "ikr.x": 0.2, "iks.x": 0.4}, "dot(y) = k - y + ikr.x * iks.x\nk = 2.5\n",
                                                                            extra_components=gate2("ikr", "x", "1 / (1 + exp(-c.y))", "2 + c.y") + gate2("iks", "x", "c.y / 3", "5 - c.y"))))
    out.append(("comp|three-components-same-gate", mmt({"c.y": 0.5, "a.m": 0.2, "b.m": 0.4, "d.m": 0.6}, "dot(y) = k - y + a.m + b.m * d.m\nk = 2.5\n",
                                                       extra_components=gate2("a", "m", "c.y", "2") + gate2("b", "m", "1 - c.y", "3") + gate2("d", "m", "c.y * c.y", "4"))))
    for cn, cv in (("zero", "0"), ("one-half", "0.5"), ("negative", "-1"), ("sci", "2e-3"), ("const-expr", "2 * 3"), ("const-ref", "k"), ("zero-float", "0.0")):
        out.append((f"clamped|{cn}", mmt({"c.x": 1.0, "c.Ki": 140.0, "c.y": 0.5}, f"dot(x) = Ki / 100 - x\ndot(Ki) = {cv}\ndot(y) = k - y * Ki / 140\nk = 2.5\n")))
    out.append(("const|expression", mmt({"c.x": 1.0, "c.y": 0.5}, "dot(x) = k2 * x - k3\ndot(y) = k - y\nk = 2.5\nk2 = 2 * 3\nk3 = k * 2 + k2\nk4 = -1.5\n")))
    out.append(("const|negative-and-sci", mmt({"c.x": -1.0, "c.y": 5e-3}, "dot(x) = k * x + k5\ndot(y) = k - y\nk = -2.5\nk5 = 1.5e-3\n")))
    out.append(("units", mmt({"c.x": 1.0, "c.y": 0.5}, "dot(x) = k * x\n    in [mV/ms]\ndot(y) = k - y\n    in [1/ms]\nk = 2.5\n    in [mS/uF]\n")))
    return out


def bounds(tier):
    return {"operators": len(OPS), "clashing_names": len(CLASH), "perturbations": "each single state and each pair x {0.9, 0.99, 1.01, 1.1}", "family": len(family())}


def items(tier):
    its = []
    for ch in E.chunks(family(), 6):
        its.append({"key": f"{ch[0][0]}..{ch[-1][0]}", "kind": "mmt", "models": [[k, t] for k, t in ch], "sample": {"key": ch[0][0], "mmt": ch[0][1]}})
    src = os.path.dirname(os.environ.get("GOTRANX_SRC", "/repo/src"))
    for f in sorted(glob.glob(os.path.join(src, "tests/mmt_files/*.mmt")) + glob.glob(os.path.join(src, "tests/cellml_files/*.cellml"))):
        its.append({"key": f"corpus|{os.path.basename(f)}", "kind": "file", "path": f, "sample": {"file": f}})
    its.append({"key": "reverse-units", "kind": "reverse-texts", "texts": [[k, t] for k, t in unit_texts()], "sample": {"key": "units|0", "text": unit_texts()[0][1]}})
    specs = [(k, s) for k, s in models.e3_specs("quick", variants=True) if "|n0|" in k and ("|split|" in k or k.endswith("|def|flat|-"))]
    specs = [(k, s) for k, s in specs if "split" in k] + [(k, s) for k, s in specs if "split" not in k][:60]
    for ch in E.chunks(specs, 10):
        its.append({"key": f"reverse|{ch[0][0]}..{ch[-1][0]}", "kind": "reverse", "specs": [[k, s] for k, s in ch], "sample": {"key": ch[0][0], "text": models.spec_text(ch[0][1])}})
    return its


def perturbations(x0):
    pts = [list(x0)]
    n = len(x0)
    fs = (0.9, 0.99, 1.01, 1.1)
    for i in range(n):
        for f in fs:
            p = list(x0)
            p[i] = p[i] * f if p[i] != 0 else (f - 1)
            pts.append(p)
    if n <= 8:
        for i, j in itertools.combinations(range(n), 2):
            for f, g_ in itertools.product(fs, repeat=2):
                p = list(x0)
                p[i] = p[i] * f if p[i] != 0 else (f - 1)
                p[j] = p[j] * g_ if p[j] != 0 else (g_ - 1)
                pts.append(p)
    return pts


def gname(ns_names, uname):
    for cand in (uname, uname + "_"):
        if cand in ns_names:
            return cand
    return None


def forward(key, model, res, fail, protocol=None):
    """myokit model -> gotran -> save -> load -> rhs vs evaluate_derivatives"""
    import myokit
    import gotranx.myokit as gm
    g = drive.gx()
    try:
        ode = gm.myokit_to_gotran(model, protocol=protocol) if protocol is not None else gm.myokit_to_gotran(model)
    except Exception as ex:
        fail("import-raises", f"myokit_to_gotran raises {type(ex).__name__}: {ex}"[:300])
        return None
    res["transitions"] += 1
    with tempfile.TemporaryDirectory(prefix="gxc15-") as d:
        p = os.path.join(d, "m.ode")
        try:
            ode.save(p)
            saved = open(p).read()
            ode2 = g.load.load_ode(p)
        except Exception as ex:
            saved = open(p).read() if os.path.exists(p) else ""
            fail("save-reload-raises", f"{type(ex).__name__}: {' '.join(str(ex).split())[:200]}", {"saved": saved[:4000]})
            return None
    res["transitions"] += 2
    try:
        ns = drive.exec_py(drive.py_code(ode2))
    except Exception as ex:
        fail("codegen-raises", f"{type(ex).__name__}: {ex}"[:300], {"saved": saved[:4000]})
        return None
    # the model myokit_to_gotran actually converted has the protocol embedded and unique names created
    m2 = model
    if protocol is not None:
        import myokit.lib.guess
        m2 = model.clone()
        myokit.lib.guess.add_embedded_protocol(m2, protocol)
    m2.create_unique_names()
    mstates = list(m2.states())
    names = []
    for v in mstates:
        n = gname(ns["state"], v.uname())
        if n is None:
            fail("state-missing", f"state {v.qname()} (unique name {v.uname()}) not among generated states {sorted(ns['state'])[:12]}", {"saved": saved[:4000]})
            return None
        names.append(n)
    x0 = [float(v) for v in m2.initial_values(as_floats=True)]
    s0 = ns["init_state_values"]()
    for v, n, val in zip(mstates, names, x0):
        if not abs(float(s0[ns["state"][n]]) - val) <= 1e-12 * max(1.0, abs(val)):
            fail("initial-value", f"initial value of {n}: {float(s0[ns['state'][n]])!r} != myokit {val!r}", {"saved": saved[:4000]})
            return None
    # constants
    p0 = ns["init_parameter_values"]()
    for v in m2.variables(const=True, deep=True):
        if v.is_literal():
            n = gname(ns["parameter"], v.uname())
            if n is None:
                if gname(ns["monitor"], v.uname()) is None and v.uname() != "time":
                    fail("constant-missing", f"literal constant {v.qname()} (unique name {v.uname()}) is neither a parameter nor an intermediate", {"saved": saved[:4000]})
                    return None
                continue
            if not abs(float(p0[ns["parameter"][n]]) - v.eval()) <= 1e-12 * max(1.0, abs(v.eval())):
                fail("constant-value", f"value of constant {n}: {float(p0[ns['parameter'][n]])!r} != myokit {v.eval()!r}", {"saved": saved[:4000]})
                return None
    vals = set()
    for pt in perturbations(x0):
        try:
            want = m2.evaluate_derivatives(state=pt)
        except Exception:
            res["skipped"]["myokit-eval-raises"] = res["skipped"].get("myokit-eval-raises", 0) + 1
            continue
        s = numpy.array(s0, dtype=float)
        for n, val in zip(names, pt):
            s[ns["state"][n]] = val
        try:
            with numpy.errstate(all="ignore"):
                got = ns["rhs"](0.0, s, p0)
        except Exception as ex:
            fail("rhs-raises", f"generated rhs raises {type(ex).__name__}: {ex}"[:250], {"saved": saved[:4000]})
            return None
        res["transitions"] += 1
        res["traces"] += 1
        for n, w in zip(names, want):
            gv = float(got[ns["state"][n]])
            res["evaluations"] += 1
            vals.add(round(w, 9) if w == w else "nan")
            if not (gv == w or (gv != gv and w != w) or abs(gv - w) <= 1e-9 * max(1.0, abs(w))):
                fail("derivative-differs", f"d{n}/dt = {gv!r}, myokit evaluate_derivatives gives {w!r} at state {dict(zip(names, pt))}", {"saved": saved[:4000]})
                return ode2
    if len(vals) >= 2:
        res["nontrivial"] += 1
    return ode2


def reverse(key, ode, res, fail, ref_ns=None):
    """gotran -> myokit: evaluate_derivatives vs generated rhs of the gotran model"""
    import gotranx.myokit as gm
    try:
        m = gm.gotran_to_myokit(ode)
    except Exception as ex:
        fail(f"export-raises-{type(ex).__name__}", f"gotran_to_myokit raises {type(ex).__name__}: {' '.join(str(ex).split())[:250]}")
        return
    res["transitions"] += 1
    ns = ref_ns or drive.exec_py(drive.py_code(ode))
    mst = list(m.states())
    names = [v.name() for v in mst]
    if sorted(names) != sorted(ns["state"]):
        fail("export-states-differ", f"myokit states {sorted(names)} != gotran states {sorted(ns['state'])}")
        return
    s0 = ns["init_state_values"]()
    p0 = ns["init_parameter_values"]()
    x0 = [float(v) for v in m.initial_values(as_floats=True)]
    for n, val in zip(names, x0):
        if not abs(float(s0[ns["state"][n]]) - val) <= 1e-12 * max(1.0, abs(val)):
            fail("export-initial-value", f"{n}: myokit {val!r} != gotran {float(s0[ns['state'][n]])!r}")
            return
    for a in ode.parameters + ode.states:
        try:
            v = m.get(a.components[0] + "." + a.name) if a.components[0] else None
        except Exception:
            v = None
        if v is not None and a.unit_str is not None:
            mu = str(v.unit()).strip("[]") if v.unit() is not None else None
            if mu is None:
                fail("export-unit-lost", f"{a.name}: unit {a.unit_str!r} lost in the myokit model")
                return
            try:
                import myokit as _mk
                want_u = _mk.parse_unit(a.unit_str.replace("**", "^"))
            except Exception:
                want_u = None
            if want_u is not None and v.unit() != want_u:
                fail("export-unit-changed", f"{a.name}: unit {a.unit_str!r} became {v.unit()} in the myokit model")
                return
    for pt in perturbations(x0)[:40]:
        try:
            want = m.evaluate_derivatives(state=pt)
        except Exception:
            continue
        s = numpy.array(s0, dtype=float)
        for n, val in zip(names, pt):
            s[ns["state"][n]] = val
        try:
            with numpy.errstate(all="ignore"):
                got = ns["rhs"](0.0, s, p0)
        except Exception:
            return
        res["traces"] += 1
        for n, w in zip(names, want):
            gv = float(got[ns["state"][n]])
            res["evaluations"] += 1
            if not (gv == w or (gv != gv and w != w) or abs(gv - w) <= 1e-9 * max(1.0, abs(w))):
                fail("export-derivative-differs", f"d{n}/dt: myokit model from gotran_to_myokit gives {w!r}, generated rhs {gv!r}")
                return


def run_item(item):
    g = drive.gx()
    import myokit
    res = c01.new_res()
    if item["kind"] == "mmt":
        for key, text in item["models"]:
            res["states"] += 1

            def fail(cls, what, detail=None, _k=key, _t=text):
                res["failures"].append({"finding": f"{ID}|{cls}|{_k}", "what": f"{_k}: {what}", "size": len(_t), "detail": dict(detail or {}, mmt=_t),
                                        "replay_item": {"key": _k, "kind": "mmt", "models": [[_k, _t]]}})
            try:
                model = myokit.parse_model(text)
            except Exception as ex:
                res["skipped"]["myokit-rejects-model"] = res["skipped"].get("myokit-rejects-model", 0) + 1
                continue
            ode2 = forward(key, model, res, fail)
            if ode2 is not None:
                def fail_r(cls, what, detail=None):
                    fail(cls, what, detail)
                reverse(key, ode2, res, fail_r)
        return res
    if item["kind"] == "file":
        res["states"] = 1
        path = item["path"]

        def fail(cls, what, detail=None):
            res["failures"].append({"finding": f"{ID}|{cls}|{item['key']}", "what": f"{item['key']}: {what}", "size": 10 ** 6, "detail": dict(detail or {}, path=path)})
        if path.endswith(".mmt"):
            model, protocol, _ = myokit.load(path)
        else:
            import myokit.formats.cellml
            model, protocol = myokit.formats.cellml.CellMLImporter().model(path), None
        ode2 = forward(item["key"], model, res, fail, protocol=protocol)
        if ode2 is not None:
            reverse(item["key"], ode2, res, fail)
        return res
    if item["kind"] == "reverse-texts":
        for key, text in item["texts"]:
            res["states"] += 1
            res["nontrivial"] += 1

            def failt(cls, what, detail=None, _k=key, _t=text):
                res["failures"].append({"finding": f"{ID}|{cls}|text-model|units", "what": f"{_k}: {what}", "size": len(_t), "detail": dict(detail or {}, text=_t),
                                        "replay_item": {"key": "reverse-units|" + _k, "kind": "reverse-texts", "texts": [[_k, _t]]}})
            reverse(key, drive.load(text), res, failt)
        return res
    for key, sp in item["specs"]:
        res["states"] += 1
        text = models.spec_text(sp)

        def fail(cls, what, detail=None, _k=key, _sp=sp):
            res["failures"].append({"finding": f"{ID}|{cls}|text-model|{'unnamed-component' if not any(sp_c for sp_c in (_sp.get('comp') or {}).values()) else 'named-components'}", "what": f"{_k}: {what}", "size": len(text), "detail": dict(detail or {}, text=text),
                                    "replay_item": {"key": "reverse|" + _k, "kind": "reverse", "specs": [[_k, _sp]]}})
        ode = drive.load(text)
        reverse(key, ode, res, fail)
        res["nontrivial"] += 1
    return res


def unit_texts():
    """text models whose states / parameters carry units while the derivative lines carry other units or none (export direction)"""
    out = []
    for i, (su, du) in enumerate((("mV", "mV/ms"), ("mM", None), ("mV", "A/F"), ("1", "1/ms"), ("uA/cm**2", "mV"))):
        tail = f" # {du}" if du else ""
        out.append((f"units|{i}", f'parameters("m", g=ScalarParam(2.0, unit="mS/uF"))\nstates("m", V=ScalarParam(-80.0, unit="{su}"), n=ScalarParam(0.3, unit="1"))\nexpressions("m")\n'
                    f'dV_dt = -g*(V + 60)*n{tail}\ndn_dt = (0.5 - n)/10{tail}\n'))
    return out
