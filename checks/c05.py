"""C05 - explicit Euler step equals states + dt * rhs (any accepted alias, any backend), dt = 0 is the identity,
inputs are never modified."""
from __future__ import annotations

import math

import numpy

from mc import drive, lang as L, enumerate as E, models
from checks import c01

ID = "C05"
LEVEL = "model_checking"
ALIASES = ("explicit_euler", "euler", "forward_euler", "forward_explicit_euler")
DTS = (0.0, 2.0 ** -40, 0.125, 2.0 ** 20, -0.125)
RULE = ("every E3 model structure of the tier and every rate-family model x backend {numpy, c, jax} x remove_unused {off,on} x the four "
        "accepted names of the scheme (through get_scheme + CodeGenerator.scheme) x dt in {0, 2^-40, 0.125, 2^20, -0.125} x the full input "
        "grid: slot by name equal to states + dt*rhs using (a) the generated rhs of the same module and (b) the reference; dt=0 returns the "
        "input bit for bit when rhs is finite; input arrays unchanged. Non-trivial = model with >= 2 distinct reference values.")
ASSUMPTIONS = ["gcc/ctypes/jax trusted", "finite grid", "models with missing variables are examined under C13",
               "jax: quick tier uses the rate family and the zero-intermediate E3 shapes only"]
ITEM_BUDGET_S = 1800


def bounds(tier):
    return {"aliases": list(ALIASES), "dts": list(DTS), "backends": ["numpy", "c", "jax"], "remove_unused": [False, True], "E3": models.bounds(tier),
            "rate_family": len(models.rate_family())}


def items(tier):
    specs = models.degenerate_specs() + models.rate_specs()
    e3 = models.e3_specs(tier, variants=True)
    if tier == "quick":
        nsh = {i: len(sh[0]) for i, sh in enumerate(models.e3_shapes(tier))}
        e3 = [(k, s) for k, s in e3 if "|n0|" in k and (not k.endswith("|def|flat|-") or nsh[int(k.split("|")[1])] <= 1)]
    specs += e3
    its = []
    for ch in E.chunks(specs, 8):
        its.append({"key": f"{ch[0][0]}..{ch[-1][0]}", "kind": "models", "specs": [[k, s] for k, s in ch], "tier": tier,
                    "sample": {"first_key": ch[0][0], "first_text": models.spec_text(ch[0][1]), "n": len(ch)}})
    return its


def module_with_aliases(ode, backend, remove_unused):
    from gotranx.codegen import PythonCodeGenerator, CCodeGenerator, JaxCodeGenerator
    from gotranx.codegen.python import Format as PF
    from gotranx.codegen.c import Format as CF
    from gotranx.schemes import get_scheme

    # explicit_euler itself comes out of get_code (the generator instance has produced rhs / monitor_values before it); the aliases
    # come from a fresh generator that is only asked for schemes
    base = models.generate(ode, backend, remove_unused=remove_unused, scheme=["explicit_euler"])
    if backend == "c":
        cg = CCodeGenerator(ode, format=CF.none, remove_unused=remove_unused)
    elif backend == "jax":
        cg = JaxCodeGenerator(ode, format=PF.none, remove_unused=remove_unused)
    else:
        cg = PythonCodeGenerator(ode, format=PF.none, remove_unused=remove_unused)
    parts = [base]
    for a in ALIASES[1:]:
        parts.append(models.stage("codegen", lambda: cg.scheme(get_scheme(a))))
    code = "\n".join(parts)
    return {"c": models.CMod, "jax": models.JaxMod, "numpy": models.PyMod}[backend](code)


def run_item(item):
    drive.gx()
    import checks.c03 as c03
    c03._jax_env()
    res = c01.new_res()
    tier = item.get("tier", "quick")
    for key, sp in item["specs"]:
        res["states"] += 1
        text = models.spec_text(sp)
        ref = models.Ref(sp)

        def fail(finding, what, detail=None, _k=key, _sp=sp):
            res["failures"].append({"finding": finding, "what": f"{_k}: {what}", "size": len(text), "detail": dict(detail or {}, text=text),
                                    "replay_item": {"key": _k, "kind": "models", "specs": [[_k, _sp]], "tier": tier}})
        try:
            ode = drive.load(text)
        except Exception as ex:
            fail(f"{ID}|load-error", repr(ex)[:200])
            continue
        backends = ["numpy", "c"]
        if tier != "quick" or key.startswith("rate|") or "|000" in key[:8]:
            backends.append("jax")
        pts = models.model_grid(ref)
        if len(pts) > 125:
            pts = [pt for pt in pts if all(v in (-1.0, 0.5, 2.0, 0.25) for k_, v in pt.items())] or pts[:125]
        seen_vals = set()
        for backend in backends:
            for ru in (False, True):
                try:
                    mod = module_with_aliases(ode, backend, ru)
                except models.StageError as ex:
                    fail(f"{ID}|{backend}|{ex.stage}-error", f"remove_unused={ru}: {ex}")
                    continue
                res["transitions"] += 2 + len(ALIASES)
                try:
                    sidx = {n: mod.index("state", n) for n in ref.states}
                    pidx = {n: mod.index("parameter", n) for n in ref.params}
                except Exception as ex:
                    fail(f"{ID}|{backend}|index-error", repr(ex)[:200])
                    continue
                bad = {}
                for pt in pts:
                    s = [0.0] * len(sidx)
                    for n, i in sidx.items():
                        s[i] = pt[n]
                    p = [0.0] * len(pidx)
                    for n, i in pidx.items():
                        p[i] = pt[n]
                    try:
                        f, _, _ = mod.call("rhs", pt["t"], s, p)
                    except Exception as ex:
                        bad.setdefault(("rhs", "raises"), (pt, repr(ex)[:200]))
                        continue
                    evl = ref.evaluator(pt)
                    for dt in DTS:
                        for alias in ALIASES:
                            try:
                                out, mutated, _ = mod.call(alias, pt["t"], s, p, dt=dt)
                            except Exception as ex:
                                bad.setdefault((alias, "raises"), (pt, repr(ex)[:200]))
                                continue
                            res["transitions"] += 1
                            if mutated:
                                bad.setdefault((alias, "mutates-input"), (pt, "inputs changed"))
                            if len(out) != len(s):
                                bad.setdefault((alias, "length"), (pt, f"{len(out)} != {len(s)}"))
                                continue
                            for st in ref.states:
                                i = sidx[st]
                                fi = f[i]
                                if not math.isfinite(fi):
                                    continue
                                res["evaluations"] += 1
                                exp = s[i] + dt * fi
                                scale = max(abs(s[i]), abs(dt * fi), 1e-300)
                                if dt == 0.0:
                                    if out[i] != s[i]:
                                        bad.setdefault((alias, "dt0-not-identity"), (pt, f"{st}: {out[i]!r} != {s[i]!r}"))
                                elif not abs(out[i] - exp) <= 4 * L.U * scale:
                                    bad.setdefault((alias, "not-states-plus-dt-rhs"), (dict(pt, dt=dt), f"{st}: got {out[i]!r}, states+dt*rhs = {exp!r}"))
                                # (b) against the reference
                                try:
                                    r = ref.value(evl, f"d{st}_dt")
                                except L.Skip as sk:
                                    res["skipped"][sk.reason] = res["skipped"].get(sk.reason, 0) + 1
                                    continue
                                seen_vals.add(round(r[0], 9))
                                expr = s[i] + dt * r[0]
                                if not abs(out[i] - expr) <= max(2 * L.tol(r) * abs(dt), 1e-12 * max(abs(s[i]), abs(dt) * r[2])):
                                    bad.setdefault((alias, "wrong-vs-reference"), (dict(pt, dt=dt), f"{st}: got {out[i]!r}, reference {expr!r}"))
                    # other input representations of the same numbers: integer arrays, python lists (whole-number points only)
                    # (only for models built from + - * of names and dyadic constants - E3 and degenerate families: integer arithmetic has other
                    #  semantics for ** and / in numpy/jax, which is not the generator's business)
                    if all(float(v).is_integer() for v in s + p) and backend != "c" and not key.startswith("rate|"):
                        import numpy as _np
                        reps = {"int-array": (_np.array(s, dtype=_np.int64), _np.array(p, dtype=_np.int64)), "list": ([float(v) for v in s], [float(v) for v in p]),
                                "int-list": ([int(v) for v in s], [int(v) for v in p])}
                        if backend == "jax":
                            import jax.numpy as jnp
                            reps = {"int-array": (jnp.array(_np.array(s, dtype=_np.int64)), jnp.array(_np.array(p, dtype=_np.int64))), "float32": (jnp.array(s, dtype=jnp.float32), jnp.array(p, dtype=jnp.float32))}
                        for dt in (0.125, 0.0):
                            try:
                                base_out = mod.call("explicit_euler", pt["t"], s, p, dt=dt)[0]
                            except Exception:
                                continue
                            for rn, (sr, pr) in reps.items():
                                if backend == "numpy" and rn in ("list", "int-list"):
                                    continue  # documented inputs are arrays
                                try:
                                    out2 = mod.ns["explicit_euler"](sr, pt["t"], dt, pr)
                                    out2 = [float(v) for v in _np.asarray(out2).ravel()]
                                except Exception as ex:
                                    bad.setdefault(("explicit_euler", f"raises-for-{rn}-input"), (dict(pt, dt=dt), repr(ex)[:160]))
                                    continue
                                res["evaluations"] += 1
                                tolr = 1e-6 if rn == "float32" else 1e-12
                                if len(out2) != len(base_out) or any(not (a == b or abs(a - b) <= tolr * max(1.0, abs(a))) for a, b in zip(base_out, out2) if a == a):
                                    bad.setdefault(("explicit_euler", f"result-depends-on-{rn}-input"), (dict(pt, dt=dt), f"float64 input gives {base_out}, {rn} input gives {out2}"))
                    res["traces"] += 1
                for (fn, cls), (pt, msg) in sorted(bad.items()):
                    fail(f"{ID}|{backend}|{fn}|{cls}", f"remove_unused={ru}: {msg} at {pt}", {"backend": backend, "remove_unused": ru, "point": pt})
        if len(seen_vals) >= 2:
            res["nontrivial"] += 1
    return res
