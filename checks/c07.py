"""C07 - hybrid Rush-Larsen applies the Rush-Larsen update to exactly the stiff states and explicit Euler to the rest.

For every 3-state model of the family (x-rate x y-rate drawn from representative rate shapes, z affine) and EVERY subset S of
its states - plus S with a foreign name, S with duplicates, S reversed - explicit_euler, generalized_rush_larsen and
hybrid_rush_larsen(stiff_states=S) are generated into one module (same delta); slot by slot the hybrid step must equal the
generated GRL step for X in S and the generated Euler step for X not in S (bit-for-bit), and the reference formula.
"""
from __future__ import annotations

import itertools
import math

from mc import drive, lang as L, enumerate as E, models
from checks import c01

ID = "C07"
LEVEL = "model_checking"
RULE = ("every model of the family (8 x-rates x 4 y-rates, z affine; plus every zero-intermediate E3 two-state model, both namings, in thorough) x every subset of "
        "states as stiff_states (+ foreign name, duplicates, reversed order, None) x delta {1e-8, 0.5} x backend {numpy, c (+jax thorough)}: "
        "hybrid_rush_larsen compared slot by slot, bit-for-bit, with generalized_rush_larsen (X in S) / explicit_euler (X not in S) of the same "
        "module and with the reference formula on the grid. Non-trivial = configuration where the two candidate updates differ on >= 1 point.")
ASSUMPTIONS = ["gcc/ctypes/jax trusted", "finite grid"]
ITEM_BUDGET_S = 1800
XR = ("affine[p,1]", "gate", "x**2", "exp(-x)", "cond-x", "abs(x)", "const", "y-only", "stiff", "affine[i,y]")
YR = ("affine[-0.5,p]", "x**3", "sin(x)", "const")


def _swap(n, a="x", b="y"):
    if n[0] == "var":
        return ("var", b if n[1] == a else (a if n[1] == b else n[1]))
    return tuple(_swap(c, a, b) if isinstance(c, tuple) else c for c in n)


def family():
    fam = dict(models.rate_family())
    out = []
    n = L.num
    for xr in XR:
        for yr in YR:
            sp = models.spec([("x", n("1.0")), ("y", n("2.0")), ("z", n("0.5"))], [("p", n("0.5"))],
                             [("i", L.bin_("+", L.bin_("*", n("0.5"), L.var("x")), L.var("p"))), ("dx_dt", fam[xr]), ("dy_dt", _swap(fam[yr])),
                              ("dz_dt", L.bin_("-", L.var("p"), L.bin_("*", n("0.75"), L.var("z"))))])
            out.append((f"hyb|{xr}|{yr}", sp))
    return out


def stiff_configs(states):
    cfgs = [("None", None)]
    for k in range(len(states) + 1):
        for sub in itertools.combinations(states, k):
            cfgs.append(("{" + ",".join(sub) + "}", list(sub)))
    # every subset together with one and with two names that are not states (so that the *number* of names can coincide with the number of states)
    for k in range(len(states) + 1):
        for sub in itertools.combinations(states, k):
            cfgs.append(("{" + ",".join(sub) + "}+1foreign", list(sub) + ["not_a_state"]))
            cfgs.append(("{" + ",".join(sub) + "}+2foreign", ["p"] + list(sub) + ["i"]))
    cfgs.append(("{x}+foreign", [states[0], "not_a_state"]))
    cfgs.append(("foreign-only", ["i", "p", "dx_dt"]))
    cfgs.append(("dups", [states[0], states[0], states[-1]]))
    cfgs.append(("reversed", list(reversed(states))))
    return cfgs


def bounds(tier):
    return {"x_rates": list(XR), "y_rates": list(YR), "stiff_configs": len(stiff_configs(["x", "y", "z"])), "deltas": [1e-8, 0.5, 0.0],
            "backends": ["numpy", "c"] + (["jax"] if tier != "quick" else [])}


def items(tier):
    its = []
    specs = family()
    if tier != "quick":
        shapes = models.e3_shapes("quick")
        specs += [(k, s) for k, s in models.e3_specs("quick", variants=False) if len(shapes[int(k.split("|")[1])][0]) == 0]  # every zero-intermediate E3 shape, both namings
    for key, sp in specs:
        its.append({"key": key, "kind": "hyb", "spec": sp, "tier": tier, "sample": {"model": key, "text": models.spec_text(sp)}})
    return its


def run_item(item):
    drive.gx()
    import checks.c03 as c03
    c03._jax_env()
    res = c01.new_res()
    key, sp, tier = item["key"], item["spec"], item.get("tier", "quick")
    text = models.spec_text(sp)
    ref = models.Ref(sp)
    pts = models.model_grid(ref)
    if len(pts) > 243:
        pts = [pt for pt in pts if all(v in (-1.0, 0.5, 2.0, 0.25) for v in pt.values())] or pts[:243]
    backends = ("numpy", "c") if tier == "quick" else ("numpy", "c", "jax")
    for delta in (1e-8, 0.5, 0.0):
        for cname, stiff in stiff_configs(ref.states):
            if tier == "quick" and "foreign" in cname and cname not in ("{x}+foreign", "foreign-only") and key.split("|")[1] not in ("affine[p,1]", "gate", "x**2"):
                continue  # quick: the subset x foreign-name-count product only for three x-rates
            res["states"] += 1
            S = set(stiff or ()) & set(ref.states)

            def fail(cls, backend, what, detail=None):
                res["failures"].append({"finding": f"{ID}|{backend}|{cls}", "what": f"{key} stiff={cname} delta={delta}: {what}", "size": len(text) + len(cname),
                                        "detail": dict(detail or {}, text=text, stiff=stiff, delta=delta, backend=backend)})
            differs = False
            for backend in backends:
                try:
                    mod = models.build(text, backend, scheme=list(models.SCHEMES), delta=delta, stiff_states=stiff)
                except models.StageError as ex:
                    fail(f"{ex.stage}-error", backend, str(ex))
                    continue
                res["transitions"] += 3
                sidx = {n: mod.index("state", n) for n in ref.states}
                bad = {}
                for pt in pts:
                    s = [0.0] * len(sidx)
                    for n, i in sidx.items():
                        s[i] = pt[n]
                    p = [0.0] * len(ref.params)
                    for n in ref.params:
                        p[mod.index("parameter", n)] = pt[n]
                    try:
                        eu = mod.call("explicit_euler", pt["t"], s, p, dt=0.125)[0]
                        grl = mod.call("generalized_rush_larsen", pt["t"], s, p, dt=0.125)[0]
                        hyb = mod.call("hybrid_rush_larsen", pt["t"], s, p, dt=0.125)[0]
                    except Exception as ex:
                        bad.setdefault("raises", (pt, repr(ex)[:200]))
                        continue
                    res["transitions"] += 3
                    evl = ref.evaluator(pt)
                    for st in ref.states:
                        i = sidx[st]
                        want = grl[i] if st in S else eu[i]
                        other = eu[i] if st in S else grl[i]
                        res["evaluations"] += 1
                        if grl[i] != eu[i] and not (grl[i] != grl[i] and eu[i] != eu[i]):
                            differs = True
                        if not (hyb[i] == want or (hyb[i] != hyb[i] and want != want)):
                            if hyb[i] == other:
                                bad.setdefault("wrong-scheme-for-state", (pt, f"{st} ({'stiff' if st in S else 'non-stiff'}): hybrid returned the {'Euler' if st in S else 'Rush-Larsen'} update {hyb[i]!r}, expected {want!r}"))
                            else:
                                bad.setdefault("differs-from-both", (pt, f"{st}: hybrid {hyb[i]!r}, GRL {grl[i]!r}, Euler {eu[i]!r}"))
                        try:
                            v, tl = ref.expected("hybrid_rush_larsen", dict(pt, dt=0.125), st, delta=delta, stiff=S, evl=evl)
                        except L.Skip as sk:
                            res["skipped"][sk.reason] = res["skipped"].get(sk.reason, 0) + 1
                            continue
                        if math.isfinite(v) and not abs(hyb[i] - v) <= tl:
                            bad.setdefault("wrong-vs-reference", (pt, f"{st}: hybrid {hyb[i]!r}, reference {v!r} tol {tl:.3g}"))
                    res["traces"] += 1
                for cls, (pt, msg) in sorted(bad.items()):
                    fail(cls, backend, f"{msg} at {pt}", {"point": pt})
            if differs:
                res["nontrivial"] += 1
    return res
