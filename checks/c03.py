"""C03 - generated JAX code computes the same values, with full-size outputs.

E1 (k<=2), E2 as packs through backend=jax (rhs, jitted; un-jitted on the V4 sub-grid), E3 model structures with every
function the NumPy backend offers (rhs, monitor_values, three schemes, init_* with and without keyword overrides,
missing_values for split models), jitted and under jax.disable_jit().  Oracle: reference model, by name; output length
must equal the number of states / monitored quantities / requested missing values.
"""
from __future__ import annotations

import os

import numpy

from mc import drive, lang as L, enumerate as E, packs, models
from checks import c01

ID = "C03"
LEVEL = "model_checking"
RULE = ("every E1 (k<=2) / E2 expression (packed) and every E3 model structure of the tier is generated with backend=jax, exec'd, and every "
        "function is called jitted on the full grid and un-jitted (jax.disable_jit) on the V4 sub-grid; lengths and values are "
        "compared by name with the reference evaluator. Non-trivial = >=2 distinct reference values/outcomes.")
ASSUMPTIONS = ["jax/XLA and sympy are trusted", "inputs limited to the finite grid", "JAX E3 family is the quick E3 family restricted as stated in bounds"]
ITEM_BUDGET_S = 1800
FUNCS = ("rhs", "monitor_values") + models.SCHEMES


def _jax_env():
    os.environ.setdefault("JAX_PLATFORMS", "cpu")
    os.environ.setdefault("XLA_FLAGS", "--xla_cpu_multi_thread_eigen=false intra_op_parallelism_threads=1")


def bounds(tier):
    return {"E1_max_operator_nodes": 2, "E2": "all", "E3": "all shapes, naming 0 (+ naming 1 and the variant dimensions in thorough / for singleton-dependency shapes in quick)",
            "modes": ["jit on full grid", "jax.disable_jit on V4 sub-grid"], "functions": list(FUNCS) + ["init_state_values", "init_parameter_values", "missing_values"]}


def items(tier):
    its = []
    e1, _ = packs.screen(E.e1(2, E.LEAVES_Q))
    e2, _ = packs.screen(E.e2_all(tier))
    import hashlib
    for fam, exprs in (("E1", e1), ("E2", e2)):
        if fam == "E1" and tier == "quick":
            exprs = [e for e in exprs if L.size(e) <= 2]
        for i, ch in enumerate(E.chunks(exprs, 150)):
            h = hashlib.sha1("\n".join(L.render(e) for e in ch).encode()).hexdigest()[:10]
            its.append({"key": f"{fam}|min|{i:05d}|{h}", "kind": "pack", "full": False, "exprs": ch,
                        "sample": {"family": fam, "first": [L.render(e) for e in ch[:3]], "n": len(ch)}})
    specs = models.e3_specs(tier, variants=True)
    deg = models.degenerate_specs() + [(k, s) for k, s in models.rate_specs() if k.split("|")[1] not in ("floor(x)", "Mod(x,p)")]
    if tier == "quick":
        # quick: naming 0 only; base layout for shapes with <= 1 intermediate, plus every variant item
        nsh = {i: len(sh[0]) for i, sh in enumerate(models.e3_shapes(tier))}
        specs = [(k, s) for k, s in specs if "|n0|" in k and (not k.endswith("|def|flat|-") or nsh[int(k.split("|")[1])] <= 1)]
    for ch in E.chunks(deg + specs, 12):
        its.append({"key": f"{ch[0][0]}..{ch[-1][0]}", "kind": "models", "specs": [[k, s] for k, s in ch],
                    "sample": {"family": "E3", "first_key": ch[0][0], "first_text": models.spec_text(ch[0][1]), "n": len(ch)}})
    its += models.option_items(ID)
    # missing_values (sub-models obtained by splitting at a component): JAX sub-modules vs NumPy sub-modules vs the full model
    from checks import c13
    for ch in E.chunks(c13.rich_family(), 4):
        its.append({"key": f"split|{ch[0][0]}..{ch[-1][0]}", "kind": "split", "specs": [[k, s] for k, s in ch], "tier": "quick",
                    "sample": {"family": "component splits (missing_values)", "first_key": ch[0][0]}})
    return its


def jax_backend(text, names, svars, pvars):
    _jax_env()
    try:
        ode = drive.load(text)
    except Exception as ex:
        raise c01.StageError("load", ex)
    try:
        code = drive.py_code(ode, backend="jax")
    except Exception as ex:
        raise c01.StageError("codegen", ex)
    try:
        ns = drive.exec_py(code)
    except Exception as ex:
        raise c01.StageError("exec", ex)
    import jax
    import jax.numpy as jnp
    sidx, pidx = ns["state"], ns["parameter"]
    n = len(sidx)
    small = set(E.V4)

    def call(pt):
        s = numpy.zeros(n)
        for v in svars:
            s[sidx[v]] = pt[v]
        p = numpy.zeros(len(pidx))
        for v in pvars:
            p[pidx[v]] = pt[v]
        out = numpy.asarray(ns["rhs"](pt["t"], jnp.array(s), jnp.array(p)))
        if len(out) != n:
            raise c01.StageError("length", ValueError(f"rhs returned {len(out)} entries for {n} states"))
        res = {nm: float(out[sidx[nm]]) for nm in names}
        if len(names) <= 20 and all(pt[v] in small for v in ("t", "x", "y", "p", "q")):
            with jax.disable_jit():
                out2 = numpy.asarray(ns["rhs"](pt["t"], jnp.array(s), jnp.array(p)))
            for nm in names:
                a, b = float(out2[sidx[nm]]), res[nm]
                if not (a == b or (a != a and b != b) or abs(a - b) <= 1e-12 * max(1.0, abs(a))):
                    res[nm] = float("nan") if a == a else 1e308  # jit and non-jit disagree: force a mismatch
        return res

    return call


def run_item(item):
    drive.gx()
    _jax_env()
    res = c01.new_res()
    if item["kind"] == "split":
        from checks import c13
        saved = c13.ID
        c13.ID = ID
        try:
            return c13.run_item(item)
        finally:
            c13.ID = saved
    if item["kind"] == "options":
        models.run_option_item(item, res, ID, ("jax",))
        return res
    if item["kind"] == "pack":
        exprs = [L.from_json(e) for e in item["exprs"]]
        saved = c01.ID
        c01.ID = ID
        try:
            c01.run_pack(exprs, item["full"], res, jax_backend)
        finally:
            c01.ID = saved
    else:
        opts = {"scheme": list(models.SCHEMES)}
        models.run_model_item(item, res, ID, backends=("jax",), functions=FUNCS, opts=opts)
        extra_checks(item, res, opts)
    return res


def extra_checks(item, res, opts):
    """un-jitted agreement on the V4 sub-grid + init functions with/without overrides"""
    import jax
    for key, sp in item["specs"]:
        text = models.spec_text(sp)
        ref = models.Ref(sp)

        def fail(finding, what):
            res["failures"].append({"finding": finding, "what": what, "size": len(text), "detail": {"text": text},
                                    "replay_item": {"key": key, "kind": "models", "specs": [[key, sp]]}})
        try:
            mod = models.build(text, "jax", **opts)
        except models.StageError:
            continue
        for kind, names, dflt in (("state", ref.states, ref.state_defaults), ("parameter", ref.params, ref.param_defaults)):
            try:
                vals = mod.init(kind)
                idx = {n: mod.index(kind, n) for n in names}
                if len(vals) != len(names):
                    fail(f"{ID}|jax|init_{kind}_values|length", f"{key}: init_{kind}_values() has {len(vals)} entries for {len(names)} names")
                    continue
                for n in names:
                    res["evaluations"] += 1
                    if not abs(vals[idx[n]] - dflt[n]) <= 1e-12 * max(1.0, abs(dflt[n])):
                        fail(f"{ID}|jax|init_{kind}_values|wrong-default", f"{key}: init_{kind}_values()[{idx[n]}]={vals[idx[n]]!r}, declared {n}={dflt[n]!r}")
                for n in names:
                    v2 = mod.init(kind, **{n: 42.5})
                    exp = list(vals)
                    exp[idx[n]] = 42.5
                    res["evaluations"] += 1
                    if v2 != exp:
                        fail(f"{ID}|jax|init_{kind}_values|override", f"{key}: init_{kind}_values({n}=42.5) = {v2}, expected {exp}")
            except Exception as ex:
                fail(f"{ID}|jax|init_{kind}_values|raises", f"{key}: init_{kind}_values raises {ex!r}"[:300])
        # un-jitted on the sub-grid: must agree with the jitted result
        pts = [pt for pt in models.model_grid(ref) if all(v in E.V4 for v in pt.values())][:81]
        sidx = {n: mod.index("state", n) for n in ref.states}
        pidx = {n: mod.index("parameter", n) for n in ref.params}
        for pt in pts:
            s = [0.0] * len(sidx)
            for n, i in sidx.items():
                s[i] = pt[n]
            p = [0.0] * len(pidx)
            for n, i in pidx.items():
                p[i] = pt[n]
            for fname in FUNCS:
                dt = None if fname in ("rhs", "monitor_values") else 0.125
                try:
                    a = mod.call(fname, pt["t"], s, p, dt=dt)[0]
                    with jax.disable_jit():
                        b = mod.call(fname, pt["t"], s, p, dt=dt)[0]
                except Exception as ex:
                    fail(f"{ID}|jax|{fname}|raises-unjitted", f"{key}: {fname} raises {ex!r}"[:300])
                    break
                res["transitions"] += 2
                res["evaluations"] += 1
                if len(a) != len(b) or any(not (x == y or (x != x and y != y) or abs(x - y) <= 1e-12 * max(1.0, abs(x))) for x, y in zip(a, b)):
                    fail(f"{ID}|jax|{fname}|jit-vs-nojit", f"{key}: {fname} jitted {a} != un-jitted {b} at {pt}")
