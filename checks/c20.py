"""C20 - symbolic state vector, right-hand side and Jacobian are those of the model.

E3 model structures, intermediate chains of every depth 1..25 (beyond any substitution cap), diamonds, conditionals and the
rate family: states_matrix order equals the generated `state` dict; rhs_matrix evaluated numerically (subs + evalf) equals the
reference rhs with every intermediate expanded; jacobi_matrix equals the forward-mode (dual number) Jacobian through all
intermediates on the grid; both are produced (no exception) for every depth.
"""
from __future__ import annotations

import math

from mc import drive, lang as L, enumerate as E, models
from checks import c01

ID = "C20"
LEVEL = "model_checking"
RULE = ("every E3 structure of the tier (naming 0/1), every chain depth 1..25 (3 chain styles), diamonds, conditional and rate-family models: "
        "sympytools.states_matrix / rhs_matrix / jacobi_matrix are built on the loaded model and evaluated by substitution on a grid; compared "
        "by state name with the reference evaluator (rhs) and a dual-number differentiator through all intermediates (Jacobian). "
        "Non-trivial = model with >= 2 distinct Jacobian/rhs values.")
ASSUMPTIONS = ["sympy's subs/evalf/diff trusted", "finite grid (<= 27 points per model: sympy substitution is slow)", "kinks skipped by the differentiator guards"]
ITEM_BUDGET_S = 1800


def chain_specs(maxdepth=25):
    n, v = L.num, L.var
    out = []
    for d in range(1, maxdepth + 1):
        for style in ("affine", "mul", "nonlin"):
            assigns = []
            prev = "x"
            for j in range(1, d + 1):
                nm = f"c{j:02d}"
                if style == "affine":
                    e = L.bin_("+", L.bin_("*", n("0.5"), v(prev)), v("p") if j % 2 else v("y"))
                elif style == "mul":
                    e = L.bin_("*", v(prev), L.bin_("+", n("1"), L.bin_("*", n("0.125"), v("y")))) if j % 3 else L.bin_("-", v(prev), L.bin_("*", n("0.25"), v("x")))
                else:
                    e = L.call("sin", v(prev)) if j % 2 else L.bin_("+", L.bin_("*", v(prev), v(prev)), L.bin_("*", n("0.5"), v("p")))
                assigns.append((nm, e))
                prev = nm
            assigns.append(("dx_dt", L.bin_("-", v(prev), L.bin_("*", n("0.75"), v("x")))))
            assigns.append(("dy_dt", L.bin_("+", v("c01"), v(prev))))
            # names descending against dependency order for odd depths (exercises the sorts)
            sp = models.spec([("x", n("1.0")), ("y", n("2.0"))], [("p", n("0.5"))], assigns, order=[a for a, _ in (assigns[::-1] if d % 2 else assigns)])
            out.append((f"chain|{style}|{d:02d}", sp))
    # diamonds: two paths from x to the derivative, widths 2..5
    for w in range(2, 6):
        assigns = [("base", L.bin_("+", v("x"), v("p")))]
        for j in range(w):
            assigns.append((f"m{j}", L.bin_("*", n(str(0.5 + j)), L.bin_("+", v("base"), L.bin_("*", n(str(j)), v("y"))))))
        tot = v("m0")
        for j in range(1, w):
            tot = L.bin_("+", tot, L.bin_("*", v(f"m{j}"), v("m0")) if j % 2 else v(f"m{j}"))
        assigns += [("top", tot), ("dx_dt", L.bin_("-", v("top"), v("x"))), ("dy_dt", L.bin_("*", v("top"), v("base")))]
        out.append((f"diamond|{w}", models.spec([("x", n("1.0")), ("y", n("2.0"))], [("p", n("0.5"))], assigns)))
    return out


def bounds(tier):
    return {"chain_depths": "1..25 x 3 styles", "diamond_widths": "2..5", "E3": models.bounds(tier), "points_per_model": "<= 27"}


def items(tier):
    specs = chain_specs() + models.degenerate_specs() + models.rate_specs()
    e3 = models.e3_specs(tier, variants=False)
    if tier == "quick":
        shapes = models.e3_shapes(tier)
        e3 = [(k, s) for k, s in e3 if len(shapes[int(k.split("|")[1])][0]) <= 1 or "|n0|" in k]
        e3 = e3[::1]
    specs += e3
    its = []
    for ch in E.chunks(specs, 6):
        its.append({"key": f"{ch[0][0]}..{ch[-1][0]}", "kind": "models", "specs": [[k, s] for k, s in ch],
                    "sample": {"first_key": ch[0][0], "first_text": models.spec_text(ch[0][1])[:600], "n": len(ch)}})
    return its


def run_item(item):
    g = drive.gx()
    import sympy
    from gotranx import sympytools
    res = c01.new_res()
    for key, sp in item["specs"]:
        res["states"] += 1
        text = models.spec_text(sp)
        ref = models.Ref(sp)
        fam = key.split("|")[0]

        def fail(cls, what, detail=None, _k=key, _sp=sp):
            res["failures"].append({"finding": f"{ID}|{cls}|{fam}", "what": f"{_k}: {what}", "size": len(text), "detail": dict(detail or {}, text=text),
                                    "replay_item": {"key": _k, "kind": "models", "specs": [[_k, _sp]]}})
        try:
            ode = drive.load(text)
            ns = drive.exec_py(drive.py_code(ode))
        except Exception as ex:
            fail("load-or-codegen-error", repr(ex)[:200])
            continue
        try:
            S = sympytools.states_matrix(ode)
            R = sympytools.rhs_matrix(ode)
        except Exception as ex:
            fail("rhs_matrix-raises", f"{type(ex).__name__}: {ex}"[:200])
            continue
        try:
            J = sympytools.jacobi_matrix(ode)
        except Exception as ex:
            fail("jacobi_matrix-raises", f"{type(ex).__name__}: {ex}"[:200])
            continue
        res["transitions"] += 3
        names = [str(s) for s in S]
        sidx = ns["state"]
        if [sidx.get(n) for n in names] != list(range(len(names))) or len(names) != len(sidx):
            fail("state-order", f"states_matrix order {names} differs from the generated state layout {sidx}")
            continue
        inter_syms = {ode[n].symbol for n in ref.inter}
        if R.free_symbols & inter_syms or J.free_symbols & inter_syms:
            fail("intermediates-left", f"intermediate symbols remain: {sorted(map(str, (R.free_symbols | J.free_symbols) & inter_syms))[:5]}")
            continue
        allowed = {ode[n].symbol for n in ref.states + ref.params} | {ode.t}
        left = (R.free_symbols | J.free_symbols) - allowed
        if left:
            # e.g. a state derivative read by another expression and left as a bare symbol: the matrices are then not functions of the inputs
            fail("unexpanded-symbols", f"symbols that are neither states, parameters nor time remain in rhs_matrix / jacobi_matrix: {sorted(map(str, left))[:5]}")
            continue
        pts = models.model_grid(ref)
        pts = [pt for pt in pts if all(v in (-1.0, 0.5, 2.0, 0.25, 0.0, 3.0) for v in pt.values())]
        pts = pts[:: max(1, len(pts) // 27)][:27]
        vals = set()
        bad = {}
        for pt in pts:
            sub = {ode[n].symbol: pt[n] for n in ref.states + ref.params}
            sub[ode.t] = pt["t"]
            try:
                Rn = [complex(v) for v in R.subs(sub).evalf()]
                Jn = [[complex(J[i, j].subs(sub).evalf()) for j in range(len(names))] for i in range(len(names))]
            except Exception:
                res["skipped"]["sympy-eval"] = res["skipped"].get("sympy-eval", 0) + 1
                continue
            res["transitions"] += 2
            evl = ref.evaluator(pt)
            for i, st in enumerate(names):
                try:
                    r = ref.value(evl, f"d{st}_dt")
                except L.Skip as sk:
                    res["skipped"][sk.reason] = res["skipped"].get(sk.reason, 0) + 1
                    continue
                res["evaluations"] += 1
                got = Rn[i]
                vals.add(round(r[0], 9))
                if abs(got.imag) > 1e-12 or not abs(got.real - r[0]) <= max(L.tol(r), 1e-10 * max(1.0, r[2])):
                    bad.setdefault("rhs_matrix-wrong-value", (pt, f"d{st}_dt: rhs_matrix gives {got!r}, reference {r[0]!r}"))
                for j, wrt in enumerate(names):
                    env = {"t": pt["t"], "time": pt["t"]}
                    env.update({n: pt[n] for n in ref.states + ref.params})
                    try:
                        d = L.Dual(env, ref.defs, {wrt: 1.0}, through=True).ev(ref.defs[f"d{st}_dt"])
                    except L.Skip as sk:
                        res["skipped"][sk.reason] = res["skipped"].get(sk.reason, 0) + 1
                        continue
                    except (OverflowError, ZeroDivisionError):
                        continue
                    if not (math.isfinite(d[1]) and math.isfinite(d[0])):
                        continue
                    res["evaluations"] += 1
                    gj = Jn[i][j]
                    vals.add(round(d[1], 9))
                    if gj != gj or abs(gj.imag) > 1e-12 or not abs(gj.real - d[1]) <= 1e-9 * max(1.0, abs(d[1]), r[2]):
                        bad.setdefault("jacobi_matrix-wrong-value", (pt, f"d(d{st}_dt)/d{wrt}: jacobi_matrix gives {gj!r}, dual-number reference {d[1]!r}"))
            res["traces"] += 1
        if len(vals) >= 2:
            res["nontrivial"] += 1
        for cls, (pt, msg) in sorted(bad.items()):
            fail(cls, f"{msg} at {pt}", {"point": pt})
    return res
