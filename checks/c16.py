"""C16 - singularity removal changes a model only at its removable singular points.

Family built from the templates u/(exp(u)-1), sin(u)/u, u/u, (exp(u)-1)/u, log(1+u)/u with u = s - a, shifts a in {0, 1, -2}, in the
states x and y: every single template, pairs combined by + and * (two singular points in one state / in two states), triples,
compositions, the same inside intermediates, non-removable singularities (1/x, 1/(x-1)**2, mixtures) and singularity-free expressions.
Inputs: the full grid (it contains every singular point).  Oracle: where the original rhs is finite the rhs of
ode.remove_singularities() equals it; where exactly one state sits on a removable singular point the value equals the two-sided limit
computed independently with mpmath (60 digits, +-1e-25); expressions without removable singularities generate identical code.
"""
from __future__ import annotations

import itertools
import math

import numpy

from mc import drive, lang as L, enumerate as E, models, child
from checks import c01

ID = "C16"
LEVEL = "model_checking"
RULE = ("every expression of the family as dx_dt (and inside an intermediate) x the full grid over (x, y) x p in {0.5, 2}: generated NumPy rhs of "
        "ode.remove_singularities() vs generated rhs of ode (regular points) and vs the mpmath two-sided limit (removable singular points). "
        "Non-trivial = expression with at least one grid point on a singular point.")
ASSUMPTIONS = ["sympy.singularities / limit and mpmath are trusted", "points where two states are singular at once are not judged (the property speaks of one state)",
               "finite grid"]
ITEM_BUDGET_S = 1800
n_, v_ = L.num, L.var


def u(s, a):
    if a == 0:
        return v_(s)
    return L.bin_("-", v_(s), n_(str(a))) if a > 0 else L.bin_("+", v_(s), n_(str(-a)))


def T(i, s, a):
    w = u(s, a)
    one = n_("1")
    return [L.bin_("/", w, L.bin_("-", L.call("exp", w), one)), L.bin_("/", L.call("sin", w), w), L.bin_("/", w, w),
            L.bin_("/", L.bin_("-", L.call("exp", w), one), w), L.bin_("/", L.call("log", L.bin_("+", one, w)), w)][i]


SH = (0, 1, -2)


def family(tier):
    out = []
    for i in range(5):
        for a in SH:
            for s in ("x", "y"):
                out.append((f"single|T{i}|{s}|{a}", T(i, s, a), 1))
    pairs = ((0, 1), (1, 2), (0, 3), (2, 4), (0, 0), (1, 1)) if tier == "quick" else tuple(itertools.product(range(5), repeat=2))
    for i, j in pairs:
        for a, b in ((0, 1), (0, -2), (1, -2)):
            for op in ("+", "*"):
                out.append((f"pair|same-state|T{i}{op}T{j}|{a},{b}", L.bin_(op, T(i, "x", a), T(j, "x", b)), 2))
                out.append((f"pair|two-states|T{i}{op}T{j}|{a},{b}", L.bin_(op, T(i, "x", a), T(j, "y", b)), 2))
        out.append((f"pair|same-point|T{i}+T{j}", L.bin_("+", T(i, "x", 0), T(j, "x", 0)), 1))
    for (i, j, k) in ((0, 1, 2), (1, 1, 1), (3, 4, 0)):
        out.append((f"triple|one-state|T{i}T{j}T{k}", L.bin_("+", L.bin_("+", T(i, "x", 0), T(j, "x", 1)), T(k, "x", -2)), 3))
        out.append((f"triple|two-states|T{i}T{j}T{k}", L.bin_("+", L.bin_("*", T(i, "x", 0), T(j, "y", 1)), T(k, "x", -2)), 3))
    t2 = T(1, "x", 0)
    out += [("compose|exp", L.call("exp", t2), 1), ("compose|affine", L.bin_("+", L.bin_("*", t2, v_("p")), v_("y")), 1),
            ("compose|square", L.bin_("**", T(0, "x", 0), n_("2")), 1), ("compose|minus", L.bin_("-", v_("p"), T(0, "x", 1)), 1),
            ("compose|quotient", L.bin_("/", T(1, "x", 0), L.bin_("+", n_("1"), L.bin_("*", v_("y"), v_("y")))), 1),
            ("compose|scaled-arg", L.bin_("/", L.call("sin", L.bin_("*", n_("2"), v_("x"))), v_("x")), 1),
            ("compose|param-times", L.bin_("*", v_("p"), T(3, "y", 1)), 1)]
    out += [("nonremovable|1/x", L.bin_("/", n_("1"), v_("x")), 0), ("nonremovable|1/(x-1)**2", L.bin_("/", n_("1"), L.bin_("**", L.bin_("-", v_("x"), n_("1")), n_("2"))), 0),
            ("nonremovable|p/y", L.bin_("/", v_("p"), v_("y")), 0), ("mixed|1/x+T1(x,1)", L.bin_("+", L.bin_("/", n_("1"), v_("x")), T(1, "x", 1)), 1),
            ("mixed|1/y*T0(x,0)", L.bin_("*", L.bin_("/", n_("1"), L.bin_("+", v_("y"), n_("5"))), T(0, "x", 0)), 1)]
    # one removable singularity in x together with a pole (non-removable, either sign, either side) in the other state
    poles = {"p/y": L.bin_("/", v_("p"), v_("y")), "1/y**2": L.bin_("/", n_("1"), L.bin_("**", v_("y"), n_("2"))), "1/(1-y)": L.bin_("/", n_("1"), L.bin_("-", n_("1"), v_("y"))),
             "1/(y+2)": L.bin_("/", n_("1"), L.bin_("+", v_("y"), n_("2"))), "x/y": L.bin_("/", v_("x"), v_("y"))}
    for pn, pe in poles.items():
        for op in ("+", "-"):
            for ti in (0, 1):
                out.append((f"mixed2|T{ti}(x,0){op}{pn}", L.bin_(op, T(ti, "x", 0), pe), 1))
            out.append((f"mixed2|T3(x,1){op}{pn}", L.bin_(op, T(3, "x", 1), pe), 1))
    out += [("free|poly", L.bin_("+", L.bin_("*", v_("x"), v_("y")), v_("p")), 0), ("free|exp", L.call("exp", L.neg(v_("x"))), 0), ("free|sin", L.call("sin", L.bin_("*", v_("x"), v_("p"))), 0),
            ("free|const", n_("1.5"), 0), ("free|param-singular", L.bin_("/", v_("x"), v_("p")), 0)]
    return out


def bounds(tier):
    return {"expressions": len(family(tier)), "placements": ["derivative", "intermediate", "intermediate in another component than its states", "through a stateful intermediate"], "grid": "V8 x V8 x {0.5, 2}"}


def items(tier):
    its = []
    for key, e, ns in family(tier):
        for place in ("der", "inter", "inter-other-component", "via-intermediate"):
            its.append({"key": f"{key}|{place}", "kind": "sing", "expr": e, "place": place, "nsing": ns, "sample": {"key": key, "place": place, "expr": L.render(e)}})
            if place in ("inter", "via-intermediate") and key.startswith(("single|", "compose|", "mixed")) and "|y|" not in key:
                its.append({"key": f"{key}|{place}|after-twin", "kind": "sing", "expr": e, "place": place, "nsing": ns, "history": "twin-first",
                            "sample": {"key": key, "place": place, "history": "a model with the same lines where x is a parameter is processed first in the same process"}})
    return its


def mp_eval(n, env):
    import mpmath as mp
    k = n[0]
    if k == "num":
        return mp.mpf(n[1])
    if k == "var":
        return env[n[1]]
    if k == "pi":
        return mp.pi
    if k == "neg":
        return -mp_eval(n[1], env)
    if k == "pos":
        return mp_eval(n[1], env)
    if k == "bin":
        a, b = mp_eval(n[2], env), mp_eval(n[3], env)
        return {"+": lambda: a + b, "-": lambda: a - b, "*": lambda: a * b, "/": lambda: a / b, "**": lambda: a ** b}[n[1]]()
    if k == "call":
        a = mp_eval(n[2], env)
        f = {"exp": mp.exp, "sin": mp.sin, "cos": mp.cos, "tan": mp.tan, "log": mp.log, "ln": mp.log, "sqrt": mp.sqrt, "abs": abs, "Abs": abs, "atan": mp.atan}[n[1]]
        return f(a)
    raise ValueError(n)


def _finite_when_both_perturbed(e, x, y, p):
    import mpmath as mp
    h = mp.mpf(10) ** -25
    try:
        v1 = mp_eval(e, {"x": mp.mpf(x) + h, "y": mp.mpf(y) + 3 * h, "p": mp.mpf(p)})
        v2 = mp_eval(e, {"x": mp.mpf(x) - h, "y": mp.mpf(y) - 3 * h, "p": mp.mpf(p)})
        return bool(mp.isfinite(v1) and mp.isfinite(v2) and abs(v1) < mp.mpf(10) ** 12 and abs(v2) < mp.mpf(10) ** 12)
    except (ZeroDivisionError, ValueError):
        return False


def twin_text(item):
    """the same assignment lines, but x is a PARAMETER here (so nothing that depends only on x is stateful): processing this model first must not
    influence how the real model is processed afterwards (no process-wide memoisation keyed by the text of a definition)"""
    e = L.from_json(item["expr"])
    def sub(a):
        if a[0] == "var":
            return ("var", "u") if a[1] == "x" else a
        return tuple(sub(c) if isinstance(c, tuple) else c for c in a)
    lines = ["parameters(p=0.5, x=0.5)", "states(y=1.5)"]
    if item["place"] == "via-intermediate":
        lines += [f"u = {L.render(L.bin_('*', n_('1'), v_('x')))}", f"w = {L.render(sub(e))}"]
    else:
        lines += [f"w = {L.render(e)}"]
    lines += ["dy_dt = p - y + w*0"]
    return "\n".join(lines) + "\n"


def run_item(item):
    """every evaluation happens in a child forked from this (pristine) worker; 'history' items first process the twin model in the same child"""
    drive.gx()
    st, out = child.run(_in_child, (item,), timeout=600)
    if st == "ok":
        return out
    res = c01.new_res()
    res["states"] = 1
    res["failures"].append({"finding": f"{ID}|child-{st}", "what": f"{item['key']}: {out}", "size": 1, "detail": {}})
    return res


def _in_child(item):
    if item.get("history") == "twin-first":
        try:
            ode = drive.load(twin_text(item))
            drive.py_code(ode.remove_singularities())
        except Exception:
            pass
    return evaluate(item)


def evaluate(item):
    g = drive.gx()
    import mpmath as mp
    res = c01.new_res()
    res["states"] = 1
    e = L.from_json(item["expr"])
    key = item["key"]
    if item["place"] == "der":
        assigns = [("dx_dt", e), ("dy_dt", L.bin_("-", v_("p"), v_("y")))]
    else:
        assigns = [("w", e), ("dx_dt", L.bin_("-", L.bin_("*", v_("w"), v_("p")), v_("x"))), ("dy_dt", L.bin_("-", v_("p"), v_("y")))]
    if item["place"] == "via-intermediate":
        # the singular variable is itself an intermediate that depends on the state: u = x (stateful intermediate), w = f(u)
        def sub(a):
            if a[0] == "var":
                return ("var", "u") if a[1] == "x" else a
            return tuple(sub(c) if isinstance(c, tuple) else c for c in a)
        assigns = [("u", L.bin_("*", n_("1"), v_("x"))), ("w", sub(e)), ("dx_dt", L.bin_("-", L.bin_("*", v_("w"), v_("p")), v_("x"))), ("dy_dt", L.bin_("-", v_("p"), v_("y")))]
    comp = None
    if item["place"] == "inter-other-component":
        # the expression lives in component B, the states it is singular in are declared in A
        comp = {"x": "A", "y": "A", "dx_dt": "A", "dy_dt": "A", "p": "B", "w": "B"}
    sp = models.spec([("x", n_("0.5")), ("y", n_("1.5"))], [("p", n_("0.5"))], assigns, comp=comp)
    text = models.spec_text(sp)
    kind = key.split("|")[0]

    def fail(cls, what, detail=None):
        res["failures"].append({"finding": f"{ID}|{cls}", "what": f"{key}: {what}", "size": len(text), "detail": dict(detail or {}, text=text)})
    try:
        ode = drive.load(text)
        code0 = drive.py_code(ode)
        ns0 = drive.exec_py(code0)
    except Exception as ex:
        res["skipped"]["original-fails"] = 1
        return res
    try:
        ode2 = ode.remove_singularities()
        code1 = drive.py_code(ode2)
        ns1 = drive.exec_py(code1)
    except Exception as ex:
        fail("remove-singularities-raises", f"{type(ex).__name__}: {' '.join(str(ex).split())[:250]}")
        return res
    res["transitions"] += 4
    if item["nsing"] == 0 and code0 != code1:
        fail("changed-without-removable-singularity", "generated code differs although the expression has no removable singularity")
    if ns0["state"] != ns1["state"] or ns0["parameter"] != ns1["parameter"]:
        fail("layout-changed", f"{ns0['state']} vs {ns1['state']}")
        return res
    name = "dx_dt" if item["place"] == "der" else "w"
    onsing = 0
    bad = {}
    mp.mp.dps = 60
    for x, y, p in itertools.product(E.V8, E.V8, (0.5, 2.0)):
        pt = {"t": 0.0, "x": x, "y": y, "p": p}
        s = numpy.zeros(2)
        s[ns0["state"]["x"]] = x
        s[ns0["state"]["y"]] = y
        par = numpy.array([p])
        with numpy.errstate(all="ignore"):
            m0 = ns0["monitor_values"](0.0, s, par)
            m1 = ns1["monitor_values"](0.0, s, par)
        a, b = float(m0[ns0["monitor"][name]]), float(m1[ns1["monitor"][name]])
        res["transitions"] += 2
        res["traces"] += 1
        res["evaluations"] += 1
        if math.isfinite(a):
            if not (abs(a - b) <= 1e-12 * max(1.0, abs(a))):
                k = item["nsing"]
                mult = [m for m in range(2, k + 1) if abs(b - m * a) <= 1e-12 * max(1.0, abs(m * a))]
                if mult:
                    # diagnosis: the regular branch is the SUM of one copy of the expression per singularity sympy found (m <= k)
                    m = mult[0]
                    bad.setdefault(f"regular-branch-multiplied-by-{m}", (pt, f"{name} = {a!r} in the original, {b!r} = {m} x original after remove_singularities"))
                else:
                    bad.setdefault("regular-point-changed", (pt, f"{name} = {a!r} in the original, {b!r} after remove_singularities"))
            continue
        onsing += 1
        # which states are on a singular point?  probe each state separately with mpmath
        lims = {}
        for st in ("x", "y"):
            h = mp.mpf(10) ** -25
            try:
                envp = {"x": mp.mpf(x), "y": mp.mpf(y), "p": mp.mpf(p)}
                envm = dict(envp)
                envp[st] = envp[st] + h
                envm[st] = envm[st] - h
                fp, fm = mp_eval(e, envp), mp_eval(e, envm)
                if mp.isfinite(fp) and mp.isfinite(fm) and fp.imag == 0 if hasattr(fp, "imag") else True:
                    lims[st] = (fp, fm)
            except (ZeroDivisionError, ValueError):
                continue
        finite = {st: (fp, fm) for st, (fp, fm) in lims.items() if abs(fp - fm) <= mp.mpf(10) ** -15 * max(1, abs(fp)) and abs(fp) < mp.mpf(10) ** 12}
        if len(lims) == 2 and len(finite) == 2:
            # perturbing either state alone makes it finite: ambiguous which one is singular; both limits must agree to be judged
            vals = [float((fp + fm) / 2) for fp, fm in finite.values()]
            if abs(vals[0] - vals[1]) > 1e-9 * max(1.0, abs(vals[0])):
                res["skipped"]["two-states-singular"] = res["skipped"].get("two-states-singular", 0) + 1
                continue
            want = vals[0]
        elif len(finite) == 1 and len(lims) == 1:
            fp, fm = list(finite.values())[0]
            want = float((fp + fm) / 2)
            # degenerate corner: the limit in this state is finite only because the OTHER state sits exactly on a special value (0/y at x = 0)
            st = list(finite)[0]
            other = "y" if st == "x" else "x"
            try:
                env2 = {"x": mp.mpf(x), "y": mp.mpf(y), "p": mp.mpf(p)}
                env2[other] = env2[other] + mp.mpf(10) ** -12
                env2[st] = env2[st] + mp.mpf(10) ** -25
                v2 = mp_eval(e, env2)
                if not mp.isfinite(v2) or abs(v2 - want) > 1e-6 * max(1.0, abs(want)):
                    res["skipped"]["degenerate-corner"] = res["skipped"].get("degenerate-corner", 0) + 1
                    continue
            except (ZeroDivisionError, ValueError):
                res["skipped"]["degenerate-corner"] = res["skipped"].get("degenerate-corner", 0) + 1
                continue
        elif not finite and not lims and _finite_when_both_perturbed(e, x, y, p):
            res["skipped"]["two-states-singular"] = res["skipped"].get("two-states-singular", 0) + 1
            continue
        elif not finite:
            # infinite / one-sided singularity: must be left untouched (still non-finite)
            if math.isfinite(b):
                bad.setdefault("infinite-singularity-replaced", (pt, f"{name} is {a!r} in the original (no finite two-sided limit) but {b!r} after remove_singularities"))
            continue
        else:
            res["skipped"]["ambiguous-singular-point"] = res["skipped"].get("ambiguous-singular-point", 0) + 1
            continue
        if not (math.isfinite(b) and abs(b - want) <= 1e-9 * max(1.0, abs(want))):
            k = item["nsing"]
            if k >= 2 and b != b:
                bad.setdefault(f"limit-lost-with-{k}-singularities", (pt, f"{name} at the removable singular point should be the limit {want!r}, got nan (the replacement is added to {k - 1} copies of the singular expression)"))
            else:
                bad.setdefault("limit-wrong", (pt, f"{name} at the removable singular point should be the limit {want!r}, got {b!r}"))
    if onsing:
        res["nontrivial"] = 1
    for cls, (pt, msg) in sorted(bad.items()):
        fail(cls, f"{msg} at {pt}", {"point": pt})
    return res
