"""C02 - generated C code compiles (gcc, default GNU C mode) and computes the values the model defines.

Same alphabets as C01 (E1 k<=2, E2, E3) through gotran2c.get_code -> gcc -> ctypes, oracle = the
reference model (not the NumPy backend).  For E3 models every emitted function is examined: rhs, monitor_values, the three
schemes, init_state_values, init_parameter_values, NUM_* and the index functions.
"""
from __future__ import annotations

from mc import drive, lang as L, enumerate as E, packs, models
from checks import c01

ID = "C02"
LEVEL = "model_checking"
RULE = ("every E1/E2 expression and every E3 model structure is rendered to .ode text, loaded, turned into C with "
        "gotran2c.get_code(format=none), compiled by gcc in its default mode into a shared object and called through ctypes on the "
        "full Cartesian grid; every emitted function is compared by slot name with the reference evaluator. "
        "Non-trivial = reference defined on >=1 point and >=2 distinct values/outcomes.")
ASSUMPTIONS = ["gcc, libm, sympy's C99 printer base class and ctypes are trusted", "inputs limited to the finite grid",
               "the __float128 cross-check of the property's observe_at is replaced by the running error bound of the reference"]
ITEM_BUDGET_S = 900
FUNCS = ("rhs", "monitor_values") + models.SCHEMES


def bounds(tier):
    b = c01.bounds("quick")
    b["functions"] = list(FUNCS) + ["init_state_values", "init_parameter_values", "NUM_*", "*_index"]
    return b


def items(tier):
    its = c01.expr_items("quick")
    # the thorough tier has the same expression families as quick (E1 with 3 operator nodes through gcc - 435 packs over three leaves -
    # did not finish within 25 minutes in two attempts and was dropped; C01 covers that family for the shared front end): for C02
    # the thorough tier currently explores the same space as quick
    its += models.model_items(tier, ID, variants=True)
    its += models.option_items(ID)
    return its


def c_backend(text, names, svars, pvars):
    try:
        ode = drive.load(text)
    except Exception as ex:
        raise c01.StageError("load", ex)
    try:
        code = drive.c_code(ode)
    except Exception as ex:
        raise c01.StageError("codegen", ex)
    try:
        m = drive.CModule(code)
    except Exception as ex:
        raise c01.StageError("compile", ex)
    sidx = {n: m.index("state", n) for n in list(svars) + list(names)}
    pidx = {n: m.index("parameter", n) for n in pvars}
    if min(list(sidx.values()) + list(pidx.values())) < 0:
        raise c01.StageError("index", KeyError("index function returned -1 for a declared name"))
    n, npar = m.num_states, m.num_params

    def call(pt):
        s = [0.0] * n
        for v in svars:
            s[sidx[v]] = pt[v]
        p = [0.0] * npar
        for v in pvars:
            p[pidx[v]] = pt[v]
        out, _, _ = m.rhs_like("rhs", pt["t"], s, p, n)
        return {nm: out[sidx[nm]] for nm in names}

    return call


def classify(f):
    return f


def run_item(item):
    drive.gx()
    res = c01.new_res()
    if item["kind"] == "pack":
        exprs = [L.from_json(e) for e in item["exprs"]]
        saved = c01.ID
        c01.ID = ID
        try:
            c01.run_pack(exprs, item["full"], res, c_backend)
        finally:
            c01.ID = saved
    elif item["kind"] == "options":
        models.run_option_item(item, res, ID, ("c",))
    else:
        models.run_model_item(item, res, ID, backends=("c",), functions=FUNCS, opts={"scheme": list(models.SCHEMES), "stiff_states": None})
        check_inits(item, res)
    return res


def check_inits(item, res):
    for key, sp in item["specs"]:
        text = models.spec_text(sp)
        ref = models.Ref(sp)
        try:
            mod = models.build(text, "c")
        except models.StageError:
            continue
        m = mod.m
        def fail(finding, what):
            res["failures"].append({"finding": finding, "what": what, "size": len(text), "detail": {"text": text},
                                    "replay_item": {"key": key, "kind": "models", "specs": [[key, sp]]}})
        if (m.num_states, m.num_params, m.num_monitored) != (len(ref.states), len(ref.params), len(ref.monitors)):
            fail(f"{ID}|c|NUM|wrong-count", f"{key}: NUM_STATES/PARAMS/MONITORED = {(m.num_states, m.num_params, m.num_monitored)}")
            continue
        for kind, names, dflt in (("state", ref.states, ref.state_defaults), ("parameter", ref.params, ref.param_defaults)):
            vals = mod.init(kind)
            for n in names:
                i = mod.index(kind, n)
                res["evaluations"] += 1
                if not abs(vals[i] - dflt[n]) <= 1e-12 * max(1.0, abs(dflt[n])):
                    fail(f"{ID}|c|init_{kind}_values|wrong-default", f"{key}: init_{kind}_values()[{i}] = {vals[i]!r}, declared {n}={dflt[n]!r}")
            if mod.m.index(kind, "no_such_name__") != -1:
                fail(f"{ID}|c|{kind}_index|accepts-unknown", f"{key}: {kind}_index of an unknown name is not -1")
        res["transitions"] += 2
