"""C12 - removing unused variables never changes results.

For every E3 model structure (all placements of unused parameter / state / intermediate / chains, both namings, text orders,
component layouts) and every rate-family model x backend {numpy, c, jax} x {rhs, explicit_euler, generalized_rush_larsen,
hybrid_rush_larsen(all states stiff)}: the module generated with remove_unused=True must have the same state / parameter /
monitor layout and array lengths as the one generated without, must run (no NameError / compile error) and must return the
same values slot by slot (differential, bit-for-bit) and by name against the reference.
"""
from __future__ import annotations

from mc import drive, lang as L, enumerate as E, models
from checks import c01

ID = "C12"
LEVEL = "model_checking"
FUNCS = ("rhs",) + models.SCHEMES
RULE = ("every E3 model structure of the tier (incl. every unused-definition placement) and every rate-family model x backend x function: "
        "differential comparison remove_unused on/off on the full grid (bit-for-bit, slot by slot), identical index layouts and lengths, "
        "and by-name comparison of the remove_unused=True module with the reference. Non-trivial = >= 2 distinct reference values.")
ASSUMPTIONS = ["gcc/ctypes/jax trusted", "finite grid", "jax only for the unused-definition variants and the rate family in quick"]
ITEM_BUDGET_S = 1800


def bounds(tier):
    return {"E3": models.bounds(tier), "functions": list(FUNCS), "backends": ["numpy", "c", "jax"]}


def items(tier):
    specs = models.degenerate_specs() + models.rate_specs() + models.e3_specs(tier, variants=True)
    if tier == "quick":
        specs = [(k, s) for k, s in specs if "|n0|" in k or k.endswith("|def|flat|-") or k.startswith(("rate|", "deg|"))]
    its = []
    for ch in E.chunks(specs, 10):
        its.append({"key": f"{ch[0][0]}..{ch[-1][0]}", "kind": "models", "specs": [[k, s] for k, s in ch], "tier": tier,
                    "sample": {"first_key": ch[0][0], "first_text": models.spec_text(ch[0][1]), "n": len(ch)}})
    return its


def run_item(item):
    drive.gx()
    import checks.c03 as c03
    c03._jax_env()
    res = c01.new_res()
    tier = item.get("tier", "quick")
    for key, sp in item["specs"]:
        res["states"] += 1
        text = models.spec_text(sp)
        ref = models.Ref(sp)

        def fail(finding, what, detail=None, _k=key, _sp=sp):
            res["failures"].append({"finding": finding, "what": f"{_k}: {what}", "size": len(text), "detail": dict(detail or {}, text=text),
                                    "replay_item": {"key": _k, "kind": "models", "specs": [[_k, _sp]], "tier": tier}})
        backends = ["numpy", "c"]
        has_unused = not key.endswith("|-") or key.startswith("rate|")
        if tier != "quick" or has_unused:
            backends.append("jax")
        stiff = list(ref.states)
        opts = {"scheme": list(models.SCHEMES), "stiff_states": stiff}
        pts = models.model_grid(ref)
        if tier == "quick" and len(pts) > 81:
            pts = [pt for pt in pts if all(v in (-1.0, 0.5, 2.0, 0.25) for v in pt.values())] or pts[:81]
        for backend in backends:
            try:
                off = models.build(text, backend, remove_unused=False, **opts)
            except models.StageError as ex:
                if key.startswith("rate|"):
                    res["skipped"]["scheme-generation-fails(C06)"] = res["skipped"].get("scheme-generation-fails(C06)", 0) + 1
                    continue
                fail(f"{ID}|{backend}|{ex.stage}-error|ru-off", str(ex))
                continue
            try:
                on = models.build(text, backend, remove_unused=True, **opts)
            except models.StageError as ex:
                fail(f"{ID}|{backend}|{ex.stage}-error|ru-on", f"remove_unused=True fails where remove_unused=False works: {ex}")
                continue
            res["transitions"] += 6
            lay = {}
            try:
                for m, tag in ((off, "off"), (on, "on")):
                    lay[tag] = ({n: m.index("state", n) for n in ref.states}, {n: m.index("parameter", n) for n in ref.params},
                                {n: m.index("monitor", n) for n in ref.monitors})
            except Exception as ex:
                fail(f"{ID}|{backend}|index|lookup-error", repr(ex)[:200])
                continue
            if lay["on"] != lay["off"]:
                fail(f"{ID}|{backend}|layout-differs", f"layouts differ: {lay['off']} vs {lay['on']}")
                continue
            sidx, pidx, _ = lay["off"]
            bad = {}
            for pt in pts:
                s = [0.0] * len(sidx)
                for n, i in sidx.items():
                    s[i] = pt[n]
                p = [0.0] * len(pidx)
                for n, i in pidx.items():
                    p[i] = pt[n]
                for fname in FUNCS + ("monitor_values",):
                    dt = None if fname in ("rhs", "monitor_values") else 0.125
                    try:
                        a = off.call(fname, pt["t"], s, p, dt=dt)[0]
                    except Exception:
                        continue
                    try:
                        b = on.call(fname, pt["t"], s, p, dt=dt)[0]
                    except Exception as ex:
                        bad.setdefault((fname, "raises-with-remove-unused"), (pt, repr(ex)[:200]))
                        continue
                    res["transitions"] += 2
                    res["evaluations"] += 1
                    if len(a) != len(b):
                        bad.setdefault((fname, "length-differs"), (pt, f"{len(a)} vs {len(b)}"))
                    elif not models._same(a, b):
                        bad.setdefault((fname, "value-differs"), (pt, f"remove_unused off {a} vs on {b}"))
                res["traces"] += 1
            for (fn, cls), (pt, msg) in sorted(bad.items()):
                fail(f"{ID}|{backend}|{fn}|{cls}", f"{msg} at {pt}", {"backend": backend, "point": pt})
            # by name against the reference (rhs + explicit Euler; the Rush-Larsen formulas are C06/C07's subject)
            def fail2(finding, what, detail):
                fail(finding + "|ru-on", what, detail)
            models.check_module(ref, on, res, ID, ("rhs", "explicit_euler", "monitor_values"), {"remove_unused": True}, key, fail2, pts=pts)
    return res
