"""C08 - ill-formed models are rejected, never silently repaired (fault enumeration).

Base models (one component / two components); every single well-formedness fault at every site:
  duplicate definition of each name (intermediate, derivative, state, parameter) with a right-hand side that differs
  (same dependency set | different dependencies | constant vs constant), placed before / after the original, in the same or
  in another component; kind clashes (state/parameter with equal and unequal values, state/intermediate,
  parameter/intermediate); each derivative removed; orphan derivatives; derivative in the wrong component; each variable
  occurrence replaced by an undefined name (also in parameter values); self-, 2- and 3-cycles.
Oracle: a small reference well-formedness judgement over the *edited definition list* decides which texts are ill-formed; those
must raise no later than gotran2py.get_code AND gotran2c.get_code.  The well-formed control edits must still load.
"""
from __future__ import annotations

import itertools

from mc import drive, lang as L, enumerate as E, models, child
from checks import c01

ID = "C08"
LEVEL = "fault_enumeration"
RULE = ("each base model x each single well-formedness fault x each site (see module docstring); text is loaded with ode_from_string and "
        "passed to gotran2py.get_code and gotran2c.get_code; an ill-formed text (by the reference judgement) that yields code from either "
        "generator is a violation. distinct_nontrivial counts distinct ill-formed texts; control edits (textually identical duplicates, "
        "well-formed additions) must be accepted.")
ASSUMPTIONS = ["the reference well-formedness judgement implements the property statement: two definitions of one name differ unless their text is identical",
               "single faults only (quick); pairs of faults in thorough"]
ITEM_BUDGET_S = 600

# A definition is (kind, component, name, rhs_text); kind in state|parameter|assign
BASES = {
    "one": [("parameter", "", "p", "2.0"), ("parameter", "", "q", "3.0"), ("state", "", "x", "1.0"), ("state", "", "y", "2.0"),
            ("assign", "", "c", "1"), ("assign", "", "a", "p*x"), ("assign", "", "b", "a + q*c"), ("assign", "", "dx_dt", "b - x"), ("assign", "", "dy_dt", "a*y")],
    "two": [("parameter", "A", "p", "2.0"), ("parameter", "B", "q", "3.0"), ("state", "A", "x", "1.0"), ("state", "B", "y", "2.0"),
            ("assign", "A", "c", "1"), ("assign", "A", "a", "p*x"), ("assign", "A", "dx_dt", "a - x*c"), ("assign", "B", "b", "a + q"), ("assign", "B", "dy_dt", "b*y")],
}


# atoms tagged with two components (`states("Main", "X", x=1.0)`): the component field is the text between the outer quotes
BASES["tags"] = [("parameter", "Main", "a", "1.0"), ("parameter", 'Main", "X', "k", "2.0"), ("state", 'Main", "X', "x", "1.0"), ("state", "Main", "y", "2.0"),
                 ("assign", 'Main", "X', "g", "k*x"), ("assign", 'Main", "X', "dx_dt", "a - g"), ("assign", "Main", "dy_dt", "x - y*a")]


# a component without states (parameters and intermediates only, e.g. a stimulus block) next to the one that owns the states
BASES["stateless"] = [("parameter", "A", "p", "2.0"), ("parameter", "S", "q", "3.0"), ("state", "A", "x", "1.0"), ("state", "A", "y", "2.0"),
                      ("assign", "S", "c", "1"), ("assign", "S", "b", "q*c"), ("assign", "A", "a", "p*x"), ("assign", "A", "dx_dt", "a - x*b"), ("assign", "A", "dy_dt", "b*y")]


def tags(comp):
    return frozenset(t.strip().strip('"') for t in comp.split('", "')) if comp else frozenset([""])


def render(defs):
    """each definition becomes its own block (so that 'before/after' and 'other component' are expressible)"""
    lines = []
    cur = None
    for kind, comp, name, rhs in defs:
        if kind in ("state", "parameter"):
            head = f'{kind}s("{comp}", ' if comp else f"{kind}s("
            lines.append(f"{head}{name}={rhs})")
            cur = None
        else:
            if cur != comp:
                if comp or cur is not None:
                    lines.append(f'expressions("{comp}")')
                cur = comp
            lines.append(f"{name} = {rhs}")
    return "\n".join(lines) + "\n"


def deps_of(rhs):
    import re
    toks = set(re.findall(r"[A-Za-z_][A-Za-z_0-9]*", rhs))
    return toks - set(L.FUNCS) - {"Conditional", "pi", "t", "time", "Lt", "Gt", "e", "E"}


def ill_formed(defs):
    """reference judgement -> reason or None"""
    by = {}
    for d in defs:
        by.setdefault(d[2], []).append(d)
    for name, ds in by.items():
        if len(ds) > 1:
            kinds = {d[0] for d in ds}
            if len(kinds) > 1:
                return f"kind clash for {name}"
            if len({d[3].replace(' ', '') for d in ds}) > 1:
                return f"two differing definitions of {name}"
    states = {(tg, d[2]) for d in defs if d[0] == "state" for tg in tags(d[1])}
    import re
    for kind, comp, name, rhs in defs:
        if kind == "assign":
            m = re.match(r"^d(\w+)_dt$", name)
            if m and any((tg, m.group(1)) not in states for tg in tags(comp)):
                return f"derivative {name} without a state {m.group(1)} in component '{comp}'"
    ders = {(tg, d[2]) for d in defs if d[0] == "assign" for tg in tags(d[1])}
    for comp, s in states:
        if (comp, f"d{s}_dt") not in ders:
            return f"state {s} without derivative"
    names = set(by)
    for kind, comp, name, rhs in defs:
        for dep in deps_of(rhs):
            if dep not in names:
                return f"undefined symbol {dep} in {name}"
    # cycles among assignments
    g = {d[2]: deps_of(d[3]) & {x[2] for x in defs if x[0] == "assign"} for d in defs if d[0] == "assign"}
    color = {}

    def dfs(u):
        color[u] = 1
        for v in g.get(u, ()):
            if color.get(v) == 1 or (v not in color and dfs(v)):
                return True
        color[u] = 2
        return False
    for u in g:
        if u not in color and dfs(u):
            return "cycle"
    return None


def faults(base_name):
    base = BASES[base_name]
    out = []  # (label, defs)
    comps = sorted({d[1] for d in base})
    other = {c: [o for o in comps if o != c] for c in comps}
    if base_name == "tags":
        alt = {"a": ["3.0"], "k": ["1.5"], "x": ["5.0"], "y": ["7.5"], "g": ["2*k*x", "k + x", "a"], "dx_dt": ["g - a", "-x", "a"], "dy_dt": ["y*a - x", "1"]}
    else:
      alt = {"c": ["3", "1.0"], "a": ["2*p*x", "q", "p*x + q", "x*p + 0"], "b": ["a - q*c", "q", "a"], "dx_dt": ["x - b" if base_name == "one" else "x - a", "p", "-x"],
             "dy_dt": ["y*a*2" if base_name == "one" else "y*b*2", "q", "1"], "x": ["5.0", "1"], "y": ["7.5"], "p": ["4.0", "2"], "q": ["1.5"]}
    for i, d in enumerate(base):
        kind, comp, name, rhs = d
        # textually identical duplicate = control (not a differing definition)
        for pos in ("before", "after"):
            for c2 in [comp] + other[comp]:
                if kind == "assign" and name.startswith("d") and name.endswith("_dt") and c2 != comp and base_name != "tags":
                    continue  # that is the 'derivative in the wrong component' fault below
                for r2 in [rhs] + alt.get(name, []):
                    nd = (kind, c2, name, r2)
                    defs = list(base)
                    defs.insert(i if pos == "before" else len(base), nd) if pos == "before" else defs.append(nd)
                    out.append((f"dup|{name}|{pos}|{'same' if c2 == comp else 'other'}-comp|{r2}", defs))
        # kind clashes
        if kind == "state":
            for v in (rhs, "9.0"):
                out.append((f"clash|state-vs-parameter|{name}={v}", list(base) + [("parameter", comp, name, v)]))
            out.append((f"clash|state-vs-intermediate|{name}", list(base) + [("assign", comp, name, "p" if name != "p" else "q")]))
        if kind == "parameter":
            for v in (rhs, "9.0"):
                out.append((f"clash|parameter-vs-state|{name}={v}", list(base) + [("state", comp, name, v), ("assign", comp, f"d{name}_dt", "1")]))
            out.append((f"clash|parameter-vs-intermediate|{name}", list(base) + [("assign", comp, name, "3")]))
            out.append((f"clash|parameter-vs-intermediate-expr|{name}", list(base) + [("assign", comp, name, "x + 1")]))
        if kind == "assign" and name.startswith("d") and name.endswith("_dt"):
            out.append((f"missing-derivative|{name}", [x for x in base if x is not d]))
            for c2 in other[comp]:
                out.append((f"derivative-in-wrong-component|{name}->{c2}", [x if x is not d else (kind, c2, name, rhs) for x in base]))
        # undefined names: every variable occurrence
        for dep in sorted(deps_of(rhs)):
            import re
            out.append((f"undefined|{name}|{dep}", [x if x is not d else (kind, comp, name, re.sub(rf"\b{dep}\b", "undef0", rhs)) for x in base]))
        # the definition itself removed while its uses stay (right-hand sides textually unchanged)
        if kind == "parameter" or (kind == "assign" and not (name.startswith("d") and name.endswith("_dt"))):
            if any(name in deps_of(x[3]) for x in base if x is not d):
                out.append((f"definition-removed|{name}", [x for x in base if x is not d]))
        if kind in ("state", "parameter"):
            out.append((f"undefined-in-value|{name}", [x if x is not d else (kind, comp, name, rhs + "*undef0") for x in base]))
    for comp in comps:
        out.append((f"orphan-derivative|dw_dt|{comp}", list(base) + [("assign", comp, "dw_dt", "1")]))
        out.append((f"orphan-derivative-of-parameter|{comp}", list(base) + [("assign", comp, "dp_dt" if comp in ("", "A") else "dq_dt", "1")]))
        out.append((f"orphan-derivative-of-intermediate|{comp}", list(base) + [("assign", comp, "da_dt", "1")]))
        out.append((f"state-without-derivative|{comp}", list(base) + [("state", comp, "w", "0.5")]))
    # cycles
    def repl(defs, name, rhs):
        return [x if x[2] != name else (x[0], x[1], name, rhs) for x in defs]
    out.append(("cycle|self|a", repl(base, "a", "a + p*x")))
    out.append(("cycle|self|dx_dt", repl(base, "dx_dt", "dx_dt - x")))
    out.append(("cycle|2|a-b", repl(repl(base, "a", "b*x"), "b", "a + q")))
    out.append(("cycle|2|c-a", repl(repl(base, "c", "a"), "a", "c*x")))
    out.append(("cycle|3|c-a-b", repl(repl(repl(base, "c", "b"), "a", "c*x"), "b", "a + q")))
    out.append(("cycle|through-derivative", repl(repl(base, "a", "dx_dt*p"), "dx_dt", "a - x")))
    # well-formed controls
    out.append(("control|extra-intermediate", list(base) + [("assign", comps[0], "extra", "a + 1")]))
    out.append(("control|extra-parameter", list(base) + [("parameter", comps[0], "r", "1.0")]))
    out.append(("control|base", list(base)))
    return out


def bounds(tier):
    return {"bases": list(BASES), "fault_depth": 1 if tier == "quick" else 2}


def items(tier):
    its = []
    for bn in BASES:
        fl = faults(bn)
        seen = set()
        for label, defs in fl:
            text = render(defs)
            if text in seen:
                continue
            seen.add(text)
            its.append({"key": f"{bn}|{label}", "kind": "fault", "defs": [list(d) for d in defs], "label": label,
                        "sample": {"base": bn, "fault": label, "text": text}})
        if tier != "quick":
            # pairs of faults from the non-duplicate classes
            singles = [(l, d) for l, d in fl if not l.startswith(("control", "dup|"))]
            base = BASES[bn]
            for (l1, d1), (l2, d2) in itertools.combinations(singles, 2):
                # combine by applying the second fault's edit list when it only appends definitions
                if len(d2) > len(base) and d2[: len(base)] == list(base):
                    defs = list(d1) + d2[len(base):]
                    text = render(defs)
                    if text not in seen:
                        seen.add(text)
                        its.append({"key": f"{bn}|{l1}&&{l2}", "kind": "fault", "defs": [list(d) for d in defs], "label": f"{l1}&&{l2}",
                                    "sample": {"base": bn, "fault": f"{l1}&&{l2}", "text": text}})
    return its


def fault_class(label):
    parts = label.split("&&")[0].split("|")
    if parts[0] == "dup":
        return "dup|" + parts[1] + "|" + parts[3] + "|" + parts[4]
    return "|".join(parts)


def run_item(item):
    drive.gx()
    res = c01.new_res()
    res["states"] = 1
    defs = [tuple(d) for d in item["defs"]]
    text = render(defs)
    reason = ill_formed(defs)
    outcome = {}
    bn0 = item["key"].split("|")[0]

    def attempt(history):
        out = {}
        if history == "after-base":
            try:  # the well-formed base model is loaded and generated first in the same (fresh) process
                ob = drive.load(render(BASES[bn0]))
                drive.py_code(ob)
            except Exception:
                pass
        for gen in ("py", "c"):
            try:
                ode = drive.load(text)
                code = drive.py_code(ode) if gen == "py" else drive.c_code(ode)
                out[gen] = "accepted"
            except Exception as ex:
                out[gen] = f"raised {type(ex).__name__}"
        return out
    for history in ("fresh", "after-base"):
        st, out = child.run(attempt, (history,), timeout=120)
        if st != "ok":
            out = {"py": f"child-{st}", "c": f"child-{st}"}
        for gen, o in out.items():
            if o == "accepted" or gen not in outcome:
                outcome[gen] = o if outcome.get(gen) != "accepted" else "accepted"
            if o == "accepted" and history == "after-base":
                outcome[gen + "-history"] = "accepted only/also after the base model was processed in the same process"
        res["transitions"] += 2
    res["traces"] = 1
    res["evaluations"] = 1
    res["outcomes"] = [f"{'ill' if reason else 'well'}:{outcome['py']}"]
    bn = item["key"].split("|")[0]
    if reason:
        res["nontrivial"] = 1
        acc = [g for g, o in outcome.items() if o == "accepted" and g in ("py", "c")]
        if acc:
            which = ""
            try:
                ode = drive.load(text)
                nm = item["label"].split("|")[1] if "|" in item["label"] else ""
                which = f"; surviving definition of {nm}: {getattr(ode[nm], 'expr', getattr(ode[nm], 'value', None))}" if nm else ""
            except Exception:
                pass
            res["failures"].append({"finding": f"{ID}|accepted|{bn}|{fault_class(item['label'])}", "size": len(text),
                                    "what": f"ill-formed text ({reason}) is accepted by {'+'.join(acc)} code generation{which}",
                                    "detail": {"text": text, "reason": reason, "outcome": outcome}})
    else:
        # only the explicit control edits must be accepted; a verbatim repetition is not a *differing* definition, so nothing is demanded of it
        if item["label"].startswith("control|") and any(outcome.get(g_) != "accepted" for g_ in ("py", "c")):
            res["failures"].append({"finding": f"{ID}|control-rejected|{bn}|{fault_class(item['label'])}", "size": len(text),
                                    "what": f"well-formed control text is rejected: {outcome}", "detail": {"text": text, "outcome": outcome}})
    return res
