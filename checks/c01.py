"""C01 - generated NumPy rhs computes the derivatives the model text defines.

Alphabet : E1 arithmetic nestings (all ASTs with <= k operator nodes over + - * / ** and unary - +,
           leaves x p 2 3 0.5), in minimal-parenthesis and fully parenthesised renderings;
           E2 functions / conditions / conditionals / literals / integer quotients; E3 model structures.
Bound    : k <= 2 (quick) / k <= 3 (thorough); full Cartesian input grid V8^(#vars).
Oracle   : reference evaluator of mc/lang.py (running error bound), slot looked up by name through the
           module's own `state` dict.
"""
from __future__ import annotations

import hashlib

import numpy

from mc import drive, lang as L, enumerate as E, packs, models

ID = "C01"
LEVEL = "model_checking"
RULE = ("every expression AST with <= k operator nodes (E1), every function/condition/literal shape of E2 and every "
        "E3 model structure is rendered to .ode text, loaded, generated with gotran2py.get_code and exec'd; rhs is "
        "called on the full Cartesian grid and compared by slot name with the reference evaluator. A program is "
        "non-trivial when the reference is defined on >= 1 grid point and it shows >= 2 distinct values/outcomes.")
ASSUMPTIONS = ["sympy, lark, numpy are trusted", "inputs limited to the finite grid", "nestings deeper than the bound not explored",
               "a text the loader rejects is counted, not judged (the property speaks about accepted texts)"]
PACK = 150
ITEM_BUDGET_S = 900


def bounds(tier):
    return {"E1_max_operator_nodes": 2 if tier == "quick" else 3, "grid_values": list(E.V8), "pack_size": PACK,
            "renderings": ["minimal", "full"], "E3": models.bounds(tier)}


def expr_items(tier, prefix="C01"):
    items = []
    k = 2 if tier == "quick" else 3
    e1 = E.e1(k, E.LEAVES_Q if k <= 2 else E.LEAVES_T)
    if tier != "quick":
        # the k<=2 space over the larger leaf set is always included
        seen = {L.render(e) for e in e1}
        e1 += [e for e in E.e1(2, E.LEAVES_Q) if L.render(e) not in seen]
    e1, dropped1 = packs.screen(e1)
    e2, dropped2 = packs.screen(E.e2_all(tier))
    for fam, exprs in (("E1", e1), ("E2", e2)):
        for full in (False, True):
            if fam == "E2" and full:
                continue
            for i, ch in enumerate(E.chunks(exprs, PACK)):
                h = hashlib.sha1("\n".join(L.render(e, full) for e in ch).encode()).hexdigest()[:10]
                items.append({"key": f"{fam}|{'full' if full else 'min'}|{i:05d}|{h}", "kind": "pack", "full": full,
                              "exprs": ch, "sample": {"family": fam, "full": full, "first": [L.render(e, full) for e in ch[:3]], "n": len(ch)}})
    return items


def items(tier):
    return expr_items(tier) + models.model_items(tier, "C01", deep=True)


def _fail(finding, what, expr, full, detail, size):
    return {"finding": finding, "what": what, "size": size,
            "detail": detail,
            "replay_item": {"key": "single|" + L.render(expr, full), "kind": "pack", "full": full, "exprs": [expr]}}


def run_pack(exprs, full, res, backend_call):
    """backend_call(text, names, svars, pvars) -> callable(pt) -> {name: value} ; raises on load/gen errors"""
    try:
        text, names, svars, pvars = packs.pack_text(exprs, full)
        f = backend_call(text, names, svars, pvars)
        pts = packs.points_for(exprs)
        if len(exprs) > 1:
            got_all = [f(pt) for pt in pts]
        else:
            got_all = []
            for pt in pts:
                try:
                    got_all.append(f(pt))
                except Exception as ex:  # judged per point below (only where the reference is defined)
                    got_all.append({names[0]: ex})
    except Exception as ex:  # noqa
        if len(exprs) > 1:
            h = len(exprs) // 2
            run_pack(exprs[:h], full, res, backend_call)
            run_pack(exprs[h:], full, res, backend_call)
            return
        stage = getattr(ex, "stage", None) or "call"
        e = exprs[0]
        res["transitions"] += 1
        if stage == "load":
            res["skipped"]["rejected-by-loader"] = res["skipped"].get("rejected-by-loader", 0) + 1
            res["states"] += 1
            return
        res["states"] += 1
        res["failures"].append(_fail(f"{ID}|{stage}-error", f"accepted text fails at {stage}: {type(ex).__name__}: {str(ex)[:200]}",
                                     e, full, {"text": L.render(e, full), "exception": repr(ex)[:500]}, L.size(e)))
        return
    res["transitions"] += 3 + len(pts)
    res["traces"] += len(pts)
    for i, (e, n) in enumerate(zip(exprs, names)):
        res["states"] += 1
        vals = set()
        bad = None
        ok_pts = 0
        for pt, got in zip(pts, got_all):
            try:
                ref, outc = packs.reference(e, pt)
            except L.Skip as s:
                res["skipped"][s.reason] = res["skipped"].get(s.reason, 0) + 1
                continue
            ok_pts += 1
            res["evaluations"] += 1
            g = got[n]
            vals.add((round(ref[0], 9), tuple(outc)))
            if isinstance(g, Exception):
                res["failures"].append(_fail(f"{ID}|call-error", f"rhs of `{L.render(e, full)}` raises {g!r} at {pt} where the reference is {ref[0]!r}",
                                             e, full, {"text": L.render(e, full), "point": pt, "exception": repr(g)[:300]}, L.size(e)))
                bad = None
                break
            if not (abs(g - ref[0]) <= L.tol(ref)):
                if bad is None:
                    bad = (pt, ref, g)
        if ok_pts and len(vals) >= 2:
            res["nontrivial"] += 1
        if ok_pts == 0:
            res["skipped"]["no-domain"] = res["skipped"].get("no-domain", 0) + 1
        if bad:
            pt, ref, g = bad
            res["failures"].append(_fail(f"{ID}|rhs|wrong-value", f"rhs of `{L.render(e, full)}` = {g!r}, reference {ref[0]!r} at {pt}",
                                         e, full, {"text": L.render(e, full), "point": pt, "expected": ref[0], "observed": g,
                                                   "tol": L.tol(ref)}, L.size(e)))


class StageError(Exception):
    def __init__(self, stage, ex):
        super().__init__(f"{type(ex).__name__}: {ex}")
        self.stage = stage


def numpy_backend(text, names, svars, pvars):
    try:
        ode = drive.load(text)
    except Exception as ex:
        raise StageError("load", ex)
    try:
        code = drive.py_code(ode)
    except Exception as ex:
        raise StageError("codegen", ex)
    try:
        ns = drive.exec_py(code)
    except Exception as ex:
        raise StageError("exec", ex)
    sidx, pidx = ns["state"], ns["parameter"]
    n = len(sidx)

    def call(pt):
        s = numpy.zeros(n)
        for v in svars:
            s[sidx[v]] = pt[v]
        p = numpy.zeros(len(pidx))
        for v in pvars:
            p[pidx[v]] = pt[v]
        with numpy.errstate(all="ignore"):
            out = ns["rhs"](pt["t"], s, p)
        return {nm: float(out[sidx[nm]]) for nm in names}

    return call


def new_res():
    return {"transitions": 0, "traces": 0, "evaluations": 0, "nontrivial": 0, "states": 0, "skipped": {}, "failures": [],
            "outcomes": []}


def run_item(item):
    drive.gx()
    res = new_res()
    if item["kind"] == "pack":
        exprs = [L.from_json(e) for e in item["exprs"]]
        run_pack(exprs, item["full"], res, numpy_backend)
    else:
        models.run_model_item(item, res, ID, backends=("numpy",), functions=("rhs",))
    return res
