"""C11 - saving a model to .ode and loading it back preserves the model.

Transition system: load -> (save -> load)^n  (n <= 2 quick / 3 thorough) from every initial state:
  * every E2 construct and the E1 (k<=2) arithmetic nestings as right-hand sides (packed; bisected on failure)
  * annotated structures: units, descriptions over a hostile alphabet, header comments around the 80-column wrap,
    trailing comments vs units, 1-3 components, multi-component atoms
  * the repository's .ode files and the Myokit / CellML corpus (imported models)
On every step: the saved file is accepted by load_ode; states / parameters (name, value, unit, description, components) and
assignments (name, components, unit) equal those of the model that was saved; rhs, monitor_values and the three scheme steps
are numerically equal by slot name on the grid.
"""
from __future__ import annotations

import glob
import hashlib
import os
import tempfile

import numpy

from mc import drive, lang as L, enumerate as E, models, packs
from checks import c01

ID = "C11"
LEVEL = "model_checking"
RULE = ("histories load -> (save -> load)^n from every enumerated initial model (E1 k<=2 and E2 right-hand sides, annotated structures, repository "
        ".ode files, Myokit/CellML imports); after every step the reloaded model is compared with the model that was saved: declared atoms and, "
        "by slot name on the input grid, rhs / monitor_values / explicit_euler / generalized_rush_larsen. Non-trivial = expression with >= 2 distinct values, "
        "or any annotated / corpus model.")
ASSUMPTIONS = ["numeric equality up to 1e-12 relative (literals are re-printed with 15-17 significant digits)", "finite grid",
               "derived models (simplify / remove_singularities / splits) are not fed to save: the property does not promise anything about them"]
ITEM_BUDGET_S = 1800
FUNCS = ("rhs", "monitor_values", "explicit_euler", "generalized_rush_larsen")


def bounds(tier):
    return {"chain_length": 2 if tier == "quick" else 3, "E1_max_operator_nodes": 2, "E2": "all"}


DESCS = ["a text", "", "with # hash", "it's", "f(x)=1", "comma, inside", "100%", "tab\tinside", "ends with backslash\\\\", "unicode µV"]
UNITS = ["mV", "ms**-1", "1", "uA/cm**2", None, "mM", "dimensionless", "not_a_unit", "uA_per_uF", "per ms", "mV/ms", "2 ms", "%", ""]


def annotated_texts():
    out = []
    # units / descriptions on declarations, each combination on a parameter and on a state
    for ui, u in enumerate(UNITS):
        for di, d in enumerate(DESCS):
            ann = "".join([f', unit="{u}"' if u is not None else "", f', description="{d}"'])
            out.append((f"annot|decl|u{ui}|d{di}", f'parameters(p=ScalarParam(2.0{ann}), q=3.0)\nstates(x=ScalarParam(1.5{ann}), y=2.0)\n'
                        f'a = p*x + q\ndx_dt = a - x\ndy_dt = a*y\n'))
    # trailing units / comments on assignments
    for ui, u in enumerate(["mV", "ms**-1", "uA/cm**2", "1", "a plain comment", "not_a_unit", "mM", "dimensionless", "S/mF", "mV # twice"]):
        out.append((f"annot|assign|u{ui}", f'parameters(p=2.0)\nstates(x=1.5)\na = p*x # {u}\ndx_dt = a - x # {u}\n'))
    # header comments around the 80 column wrap
    for n in (1, 5, 13, 14, 15, 16, 17, 30):
        words = " ".join(f"word{i:02d}" for i in range(n))
        out.append((f"annot|header|{n}", f"# {words}\n# second line\nparameters(p=2.0)\nstates(x=1.5)\ndx_dt = p - x\n"))
    out.append(("annot|header|long-word", "# " + "x" * 100 + " tail\nparameters(p=2.0)\nstates(x=1.5)\ndx_dt = p - x\n"))
    out.append(("annot|header|hash-inside", "# a comment with a # inside and = ( ) signs\nparameters(p=2.0)\nstates(x=1.5)\ndx_dt = p - x\n"))
    out.append(("annot|header|blank-comment", "#\n# after an empty comment\nparameters(p=2.0)\nstates(x=1.5)\ndx_dt = p - x\n"))
    # components
    out.append(("annot|comp|two", 'parameters("A", p=2.0)\nparameters("B", q=3.0)\nstates("A", x=1.0)\nstates("B", y=2.0)\nexpressions("A")\na = p*x\ndx_dt = a - x\n'
                'expressions("B")\nb = a + q\ndy_dt = b*y\n'))
    out.append(("annot|comp|multi", 'states("First component", "X-gate", x = 1, xr=3.14)\nstates("First component", "Y-gate", y = 1)\nstates("Second component", z=1)\n'
                'parameters("First component", a=1, b=2)\nparameters("Second component", c=3)\nexpressions("First component")\nd = a + b * 2 - 3 / c\n'
                'expressions("First component", "X-gate")\ndx_dt=a+1\ndxr_dt = (-d) * xr + (x / b) # mV\nexpressions("First component", "Y-gate")\ndy_dt = 2 * d - 1 # ms\n'
                'expressions("Second component")\ndz_dt = 1 + x - y  # mM\n'))
    out.append(("annot|comp|space-in-name", 'parameters("my comp", p=2.0)\nstates("my comp", x=1.0)\nexpressions("my comp")\ndx_dt = p - x\n'))
    out.append(("annot|comp|mixed-unnamed", 'parameters(p=2.0)\nstates("A", x=1.0)\nstates(y=2.0)\nexpressions("A")\ndx_dt = p - x\nexpressions("")\ndy_dt = p*y\n'))
    # parameter / state values of every literal form and constant expressions
    for li, lit in enumerate(E.LITERALS):
        out.append((f"annot|value|{li}", f"parameters(p={lit}, q=-{lit})\nstates(x={lit})\ndx_dt = p - x*q\n"))
    for vi, v in enumerate(["2*3+exp(0)", "1/3", "-1.5e-3", "pi", "sqrt(2)", "exp(1)", "2**0.5", "1/4", "-(2+3)", "10**2"]):
        out.append((f"annot|value-expr|{vi}", f"parameters(p={v})\nstates(x={v})\ndx_dt = p - x\n"))
    return out


def items(tier):
    its = []
    e1, _ = packs.screen(E.e1(2, E.LEAVES_Q))
    e2, _ = packs.screen(E.e2_all(tier))
    for fam, exprs in (("E1", e1), ("E2", e2)):
        for i, ch in enumerate(E.chunks(exprs, 100)):
            h = hashlib.sha1("\n".join(L.render(e) for e in ch).encode()).hexdigest()[:10]
            its.append({"key": f"{fam}|{i:05d}|{h}", "kind": "pack", "exprs": ch, "tier": tier, "sample": {"family": fam, "first": [L.render(e) for e in ch[:3]], "n": len(ch)}})
    for ch in E.chunks(annotated_texts(), 8):
        its.append({"key": f"{ch[0][0]}..{ch[-1][0]}", "kind": "texts", "texts": [[k, t] for k, t in ch], "tier": tier, "sample": {"key": ch[0][0], "text": ch[0][1]}})
    specs = [(k, s) for k, s in models.e3_specs("quick", variants=True) if not k.endswith("|def|flat|-")]
    if tier == "quick":
        specs = [(k, s) for k, s in specs if "|n0|" in k][::1]
    for ch in E.chunks(specs, 12):
        its.append({"key": f"{ch[0][0]}..{ch[-1][0]}", "kind": "texts", "texts": [[k, models.spec_text(s)] for k, s in ch], "tier": tier,
                    "sample": {"key": ch[0][0], "text": models.spec_text(ch[0][1])}})
    src = os.path.dirname(os.environ.get("GOTRANX_SRC", "/repo/src"))
    for f in sorted(glob.glob(os.path.join(src, "tests/odefiles/*.ode"))):
        its.append({"key": f"corpus|ode|{os.path.basename(f)}", "kind": "file", "path": f, "tier": tier, "sample": {"file": f}})
    for f in sorted(glob.glob(os.path.join(src, "tests/mmt_files/*.mmt")) + glob.glob(os.path.join(src, "tests/cellml_files/*.cellml"))):
        its.append({"key": f"corpus|myokit|{os.path.basename(f)}", "kind": "myokit", "path": f, "tier": tier, "sample": {"file": f}})
    return its


def save_load(ode, d, i):
    g = drive.gx()
    p = os.path.join(d, f"m{i}.ode")
    ode.save(p)
    text = open(p).read()
    return g.load.load_ode(p), text


def atoms_of(ode):
    def val(v):
        try:
            return float(v)
        except Exception:
            return str(v)
    st = {s.name: (val(s.value), s.unit_str, s.description or None, tuple(s.components)) for s in ode.states}
    pa = {s.name: (val(s.value), s.unit_str, s.description or None, tuple(s.components)) for s in ode.parameters}
    asg = {a.name: (tuple(a.components), a.unit_str if a.unit_str not in (None, "1") else None) for a in ode.intermediates + ode.state_derivatives}
    return st, pa, asg


def compare_atoms(a, b):
    for kind, x, y in zip(("states", "parameters", "assignments"), a, b):
        if set(x) != set(y):
            return f"{kind}: names differ: lost {sorted(set(x) - set(y))[:4]} new {sorted(set(y) - set(x))[:4]}"
        for n in x:
            if kind != "assignments":
                vx, vy = x[n][0], y[n][0]
                same_val = vx == vy or (isinstance(vx, float) and isinstance(vy, float) and abs(vx - vy) <= 1e-14 * max(abs(vx), abs(vy)))
                if not same_val:
                    return f"{kind[:-1]} {n}: value {vx!r} -> {vy!r}"
                if x[n][1:] != y[n][1:]:
                    return f"{kind[:-1]} {n}: (unit, description, components) {x[n][1:]} -> {y[n][1:]}"
            elif x[n] != y[n]:
                return f"assignment {n}: (components, unit) {x[n]} -> {y[n]}"
    return None


def numerics(ode, pts_fn):
    code = drive.py_code(ode, scheme=["explicit_euler", "generalized_rush_larsen"])
    ns = drive.exec_py(code)
    return ns


def compare_numerics(ns0, ns1, pts, res, names_s, names_p):
    """-> None or message; by slot name"""
    if set(ns0["state"]) != set(ns1["state"]) or set(ns0["parameter"]) != set(ns1["parameter"]) or set(ns0["monitor"]) != set(ns1["monitor"]):
        return "index name sets differ"
    vals = set()
    for pt in pts:
        arr = {}
        for ns in (ns0, ns1):
            s = numpy.array(ns["init_state_values"]())
            p = numpy.array(ns["init_parameter_values"]())
            for n in names_s:
                if n in pt:
                    s[ns["state"][n]] = pt[n]
            for n in names_p:
                if n in pt:
                    p[ns["parameter"][n]] = pt[n]
            arr[id(ns)] = (s, p)
        for fname in FUNCS:
            outs = []
            for ns in (ns0, ns1):
                s, p = arr[id(ns)]
                with numpy.errstate(all="ignore"):
                    try:
                        o = ns[fname](pt["t"], s, p) if fname in ("rhs", "monitor_values") else ns[fname](s, pt["t"], 0.125, p)
                    except Exception as ex:
                        o = ex
                outs.append(o)
            res["transitions"] += 2
            a, b = outs
            if isinstance(a, Exception):
                continue
            if isinstance(b, Exception):
                return f"{fname} raises {b!r} after reload at {pt}"
            idx = "monitor" if fname == "monitor_values" else "state"
            for n, i in ns0[idx].items():
                x, y = float(a[i]), float(b[ns1[idx][n]])
                res["evaluations"] += 1
                if x == x:
                    vals.add(round(x, 9))
                if not (x == y or (x != x and y != y) or abs(x - y) <= 1e-12 * max(1.0, abs(x), abs(y))):
                    return f"{fname}[{n}] = {x!r} before, {y!r} after save+load at {pt}"
    return None if True else vals


def chain(ode0, res, nsteps, pts, names_s, names_p, tag, with_numerics0=True):
    """-> (cls, message) of the first violated invariant, or None"""
    with tempfile.TemporaryDirectory(prefix="gxc11-") as d:
        cur = ode0
        ns_cur = None
        if with_numerics0:
            try:
                ns_cur = numerics(cur, None)
            except Exception:
                ns_cur = None  # code generation problems of the initial model are C01's subject
        at_cur = atoms_of(cur)
        for step in range(1, nsteps + 1):
            try:
                nxt, text = save_load(cur, d, step)
            except Exception as ex:
                saved = ""
                try:
                    saved = open(os.path.join(d, f"m{step}.ode")).read()
                except Exception:
                    pass
                return ("saved-file-rejected", f"step {step}: {type(ex).__name__}: {' '.join(str(ex).split())[:200]}", saved)
            res["transitions"] += 2
            at_n = atoms_of(nxt)
            msg = compare_atoms(at_cur, at_n)
            if msg:
                return ("atoms-differ", f"step {step}: {msg}", text)
            try:
                ns_n = numerics(nxt, None)
            except Exception as ex:
                if ns_cur is not None:
                    return ("codegen-fails-after-reload", f"step {step}: {type(ex).__name__}: {ex}"[:200], text)
                ns_n = None
            if ns_cur is not None and ns_n is not None:
                msg = compare_numerics(ns_cur, ns_n, pts, res, names_s, names_p)
                if msg:
                    return ("numerics-differ", f"step {step}: {msg}", text)
            cur, ns_cur, at_cur = nxt, ns_n, at_n
            res["traces"] += 1
    return None


def run_pack(exprs, res, nsteps):
    text, names, svars, pvars = packs.pack_text(exprs)
    pts = packs.points_for(exprs)
    if len(pts) > 64:
        pts = [pt for pt in pts if all(pt[v] in E.V4 for v in ("t", "x", "p"))]
    try:
        ode0 = drive.load(text)
    except Exception:
        if len(exprs) > 1:
            h = len(exprs) // 2
            run_pack(exprs[:h], res, nsteps)
            run_pack(exprs[h:], res, nsteps)
        else:
            res["states"] += 1
            res["skipped"]["rejected-by-loader"] = res["skipped"].get("rejected-by-loader", 0) + 1
        return
    out = chain(ode0, res, nsteps, pts, svars, pvars, "pack")
    if out is None:
        res["states"] += len(exprs)
        res["nontrivial"] += len(exprs)
        return
    if len(exprs) > 1:
        h = len(exprs) // 2
        run_pack(exprs[:h], res, nsteps)
        run_pack(exprs[h:], res, nsteps)
        return
    res["states"] += 1
    cls, msg, saved = out
    e = exprs[0]
    line = [ln for ln in saved.splitlines() if ln.startswith("ds0_dt")]
    res["failures"].append({"finding": f"{ID}|{cls}|expr", "what": f"`ds0_dt = {L.render(e)}` saved as `{line[0] if line else '?'}`: {msg}", "size": L.size(e),
                            "detail": {"text": text, "saved": saved}, "replay_item": {"key": "single|" + L.render(e), "kind": "pack", "exprs": [e]}})


def run_item(item):
    g = drive.gx()
    res = c01.new_res()
    nsteps = 2 if item.get("tier", "quick") == "quick" else 3
    if item["kind"] == "pack":
        run_pack([L.from_json(e) for e in item["exprs"]], res, nsteps)
        return res
    if item["kind"] == "texts":
        for key, text in item["texts"]:
            res["states"] += 1
            fam = "|".join(key.split("|")[:2]) if key.startswith("annot") else "E3"
            try:
                ode0 = drive.load(text)
            except Exception:
                res["skipped"]["rejected-by-loader"] = res["skipped"].get("rejected-by-loader", 0) + 1
                continue
            names_s = [s.name for s in ode0.states]
            names_p = [p.name for p in ode0.parameters]
            pts = [dict({"t": t}, **{n: v for n in names_s + names_p}) for t in (0.0, 0.5) for v in (-1.0, 0.5, 2.0)]
            pts += [dict({"t": 0.25}, **{n: 0.5 + 0.25 * i for i, n in enumerate(names_s + names_p)})]
            out = chain(ode0, res, nsteps, pts, names_s, names_p, key)
            res["nontrivial"] += 1
            if out:
                cls, msg, saved = out
                res["failures"].append({"finding": f"{ID}|{cls}|{fam}|{key if key.startswith('annot') else 'E3'}", "what": f"{key}: {msg}", "size": len(text),
                                        "detail": {"text": text, "saved": saved}, "replay_item": {"key": key, "kind": "texts", "texts": [[key, text]]}})
        return res
    # corpus
    res["states"] = 1
    res["nontrivial"] = 1
    path = item["path"]
    try:
        if item["kind"] == "file":
            ode0 = g.load.load_ode(path)
            with0 = True
        else:
            import gotranx.myokit as gm
            ode0 = gm.mmt_to_gotran(path) if path.endswith(".mmt") else gm.cellml_to_gotran(path)
            with0 = False
    except Exception as ex:
        res["skipped"]["corpus-import-fails"] = 1
        return res
    names_s = [s.name for s in ode0.states]
    names_p = [p.name for p in ode0.parameters]
    s0 = {s.name: float(s.value) for s in ode0.states}
    pts = [dict({"t": 0.0}, **{n: v * f for n, v in s0.items()}) for f in (1.0, 0.9, 1.1)]
    out = chain(ode0, res, nsteps, pts, names_s, names_p, item["key"], with_numerics0=with0)
    if out:
        cls, msg, saved = out
        res["failures"].append({"finding": f"{ID}|{cls}|{item['key']}", "what": f"{item['key']}: {msg}", "size": 10 ** 6,
                                "detail": {"path": path, "saved_head": saved[:3000]}})
    return res
